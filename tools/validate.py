#!/usr/bin/env python3
"""Validates MANIFEST.json and every evidence file against the schemas (run with python3-vt, which has jsonschema)."""
import glob, json, os, sys
import jsonschema
HERE = os.path.dirname(os.path.dirname(os.path.abspath(__file__)))
bad = 0
jsonschema.validate(json.load(open(os.path.join(HERE, "MANIFEST.json"))), json.load(open("/root/.vp/MANIFEST.schema.json")))
es = json.load(open("/root/.vp/EVIDENCE.schema.json"))
for p in sorted(glob.glob(os.path.join(HERE, "evidence", "*.json"))):
    try:
        jsonschema.validate(json.load(open(p)), es)
    except Exception as e:
        bad += 1
        print("INVALID", p, str(e)[:300])
print("validated; %d invalid" % bad)
sys.exit(1 if bad else 0)
