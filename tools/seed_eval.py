#!/venv/bin/python
"""
Confirms and evaluates a seeded breaking change written by a sub-agent in a scratch worktree.

    tools/seed_eval.py <seed id> <worktree> <property> [check ids to run ...] [--tier quick]

1. extracts the change as patch.diff (git diff of svgelements/), copies demo.py;
2. the module imports; the pinned suite (guard off) still matches BASELINE.json with the change applied;
3. demo.py exits 1 with the change and 0 without it (the change is reverted and re-applied in the worktree);
4. runs the given checks (default: the seeded property) against the worktree (VERIF_REPO) and records which ones
   print VIOLATION;
5. writes seeded/<id>/{patch.diff, demo.py, meta.json}.
"""
import json
import os
import shutil
import subprocess
import sys

VERIF = os.path.dirname(os.path.dirname(os.path.abspath(__file__)))


def run(cmd, **kw):
    return subprocess.run(cmd, capture_output=True, text=True, **kw)


def main(argv):
    tier = "quick"
    if "--tier" in argv:
        i = argv.index("--tier")
        tier = argv[i + 1]
        argv = argv[:i] + argv[i + 2:]
    sid, wt, prop = argv[0], argv[1], argv[2]
    checks = argv[3:] or [prop]
    out = os.path.join(VERIF, "seeded", sid)
    os.makedirs(out, exist_ok=True)
    diff = run(["git", "-C", wt, "diff", "--", "svgelements"]).stdout
    if not diff.strip():
        print("no change in the worktree")
        return 2
    open(os.path.join(out, "patch.diff"), "w").write(diff)
    demo = os.path.join(wt, "demo.py")
    if os.path.exists(demo):
        src = open(demo).read().replace(wt, "WORKTREE")
        open(os.path.join(out, "demo.py"), "w").write("# run with the worktree path substituted for WORKTREE (sys.path)\n" + src)
    meta = {"id": sid, "property": prop, "worktree_head": run(["git", "-C", wt, "rev-parse", "HEAD"]).stdout.strip()}
    previous = os.path.join(out, "meta.json")
    if os.path.exists(previous):  # a re-evaluation after strengthening: keep the notes and the first result
        old = json.load(open(previous))
        for k in ("needs_to_manifest", "history", "what_was_run"):
            if k in old:
                meta[k] = old[k]
        meta["first_run"] = old.get("first_run") or {"detected_by": old.get("detected_by"), "checks": old.get("checks")}
    r = run(["/venv/bin/python", "-c", "import sys; sys.path.insert(0, %r); import svgelements" % wt])
    meta["imports"] = r.returncode == 0
    r = run([os.path.join(VERIF, "tools", "run_suite.sh"), wt])
    meta["suite"] = r.stdout.strip().splitlines()[0] if r.stdout.strip() else r.stderr[-200:]
    meta["suite_matches_baseline"] = r.returncode == 0
    r1 = run(["/venv/bin/python", demo], cwd=wt)
    patch = os.path.join(out, "patch.diff")
    run(["git", "-C", wt, "apply", "-R", patch])
    r0 = run(["/venv/bin/python", demo], cwd=wt)
    run(["git", "-C", wt, "apply", patch])
    meta["demo_with_change"] = {"exit": r1.returncode, "output": (r1.stdout + r1.stderr)[-600:]}
    meta["demo_without_change"] = {"exit": r0.returncode, "output": (r0.stdout + r0.stderr)[-300:]}
    meta["confirmed"] = bool(meta["imports"] and meta["suite_matches_baseline"] and r1.returncode == 1 and r0.returncode == 0)
    results = {}
    scratch = os.path.join("/tmp", "seedout_%s" % sid)
    for c in checks:
        env = dict(os.environ, VERIF_REPO=wt, VERIF_OUT=scratch, PYTHONHASHSEED="0")
        r = run(["/venv/bin/python", os.path.join(VERIF, "vp_check.py"), c, "--tier", tier], env=env, cwd=VERIF)
        viol = [l for l in r.stdout.splitlines() if l.startswith("VIOLATION")]
        buckets = [l.strip() for l in r.stdout.splitlines() if l.strip().startswith("bucket:")]
        results[c] = {"exit": r.returncode, "detected": r.returncode == 1 and bool(viol), "buckets": buckets[:4], "tier": tier}
    shutil.rmtree(scratch, ignore_errors=True)
    meta["checks"] = results
    meta["detected_by"] = sorted(c for c, v in results.items() if v["detected"])
    json.dump(meta, open(os.path.join(out, "meta.json"), "w"), indent=1)
    print(json.dumps({k: meta[k] for k in ("id", "confirmed", "suite", "detected_by")}, indent=1))
    print("demo with change: exit %s; without: exit %s" % (r1.returncode, r0.returncode))
    return 0


if __name__ == "__main__":
    sys.exit(main(sys.argv[1:]))
