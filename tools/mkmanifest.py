#!/venv/bin/python
"""Regenerates /verif/MANIFEST.json from the table below and validates it against the schema when jsonschema
is available (python3-vt has it)."""
import json
import os
import sys

HERE = os.path.dirname(os.path.dirname(os.path.abspath(__file__)))

CHECKS = {
    "C01": dict(
        technique="property-based testing: exhaustive command-pair enumeration + grammar-directed generation against a reference path interpreter",
        text="Generated-input search against an independent reference interpreter of the SVG path grammar: all 20x20 command pairs enumerated, plus thousands of grammar-directed strings with generated number spellings and separators. Exploration: finds violations, never proves absence.",
        note="Trusts Python float() for number tokens and the reference interpreter in harness/ref/pathref.py (written from the SVG 1.1/2 path chapter); arcs compared for plumbing only (F.6 math is C05).",
        ref="5/C01",
    ),
    "C17": dict(
        technique="property-based testing: differential check of incremental parsing against the joined string, exhaustive over command pairs at the split",
        text="Generated command-boundary splits of grammar-conforming strings (and all 20x20 command pairs with the split between them, x3 operators) applied with +, +=, parse and Move+str, compared segment-wise with the parse of the joined text; Path+Path and Path+Shape concatenation compared with the operands' own segments. Exploration.",
        note="The joined-string parse is the oracle (the property is stated as that equality); its own correctness is C01's subject. Shapes are appended through their d() text, so their arcs are compared at six significant digits (known finding KF-ARC-D-6DIGITS of C07).",
        ref="5/C17",
    ),
    "C09": dict(
        technique="property-based testing + coverage-guided fuzzing (atheris): exhaustive truncation of command-pair strings, grammar-directed fault injection, raw-byte fuzzing, with exception-type / validity / reference-prefix oracles inside the target",
        text="Every prefix of the 800 command-pair strings, thousands of single-fault mutations of grammar-directed strings (token deleted/duplicated/replaced, stray/control/non-ASCII characters, operands stripped, no leading move, bad flags), long inputs with a linear-time predicate, and (thorough) 16 atheris workers; each input must return or raise ValueError only, keep exactly the reference interpreter's longest-valid-prefix segments, have numeric points, and survive d(), d(relative), bbox(), length() and a shear. Exploration.",
        note="Longest valid prefix is defined by harness/ref/pathref.py; comma-placement leniency and documented start-less fragments are judged on all clauses except exact segment equality; two fragment classes are known findings (known_findings.json).",
        ref="5/C09",
    ),
    "C04": dict(
        technique="property-based testing: grammar-directed transform lists and generated matrix/operation histories against an independent 6-tuple affine algebra",
        text="Generated transform lists (all SVG 1.1 + CSS 2-D functions, optional arguments present/omitted, angle and length units, letter case, separators) compared entry-wise with the right-most-first product of elementary matrices; generated invertible matrices, points and pre_/post_ operation sequences compared with left/right multiplication, two-sided inverse, associativity with point application, identity neutrality. Exploration.",
        note="Elementary matrices written from SVG 1.1 7.6 / CSS Transforms 1; math.sin/cos/tan trusted. mm/cm carry the known inch-constant finding (dual table); inch-family + px-family translation sums are a known finding.",
        ref="5/C04",
    ),
    "C12": dict(
        technique="property-based testing: exhaustive enumeration of the 14x14 unit pairs x 6 operators plus generated amounts against exact rational arithmetic",
        text="All ordered unit pairs x {+,-,/,<,<=,==} x 8 amount pairs, all units x ppi x supplied/withheld context for value(), conversions, plus generated decimal spellings; expectations computed in fractions.Fraction from the CSS absolute-unit table; unresolvable lengths must stay symbolic, cross-family arithmetic must not return numbers. Exploration with an exhaustive finite part.",
        note="Dual table: results matching the library's documented 6-digit inch constant are the known finding KF-INCH-CONSTANT (pinned by two tests); everything else is compared at 1e-12 relative.",
        ref="5/C12",
    ),
    "C13": dict(
        technique="property-based testing: exhaustive keyword table, exhaustive 3/4-digit hex, exhaustive per-channel setters, generated functional spellings and accessor histories against a transcribed table, colorsys and a 4-component model",
        text="147 keywords + transparent x 4 letter cases, all 4096+65536 short hex strings, every value 0..255 written to every channel, generated rgb()/rgba()/percent/hsl()/hsla() spellings incl. out-of-range, fractional and negative arguments, and histories of up to 6 setter calls (components, packings, opacity, hue/saturation/lightness) with all getters compared after every step and Color(c.hex)==c. Exploration with exhaustive finite parts.",
        note="Keyword table in harness/ref/colortable.py (three independent transcriptions agree); stdlib colorsys for HSL; 1-per-channel tolerance where CSS leaves rounding open; alpha handling of the rgb/bgr integer setters not judged.",
        ref="5/C13",
    ),
    "C11": dict(
        technique="property-based testing: exhaustive enumeration of the 31 preserveAspectRatio cells x 6 size-supply routes, generated sizes, against the 8.2 algorithm in exact rationals plus an independent geometric predicate",
        text="All 10 align values x {absent, meet, slice} plus the absent attribute, crossed with six ways of supplying the element size (direct call, Viewbox.transform, SVG.parse with units / percentages of a caller size / defaulted from the viewBox / nested svg with x,y) and generated sizes over six orders of magnitude; the matrix is compared with the SVG 2 8.2 algorithm evaluated in fractions.Fraction and with a geometric inside/covers/touches/aligned predicate; degenerate viewBoxes must give identity or disable rendering without raising. Exploration with an exhaustive finite part.",
        note="x/y of the outermost svg are not generated; irregular whitespace inside preserveAspectRatio is outside the quantifier; tolerance is the 12-decimal text of the transform string.",
        ref="5/C11",
    ),
    "C05": dict(
        technique="property-based testing: arcs constructed around the radius-scaling boundary against an F.6.5/F.6.6 reference and the implicit ellipse equation",
        text="Endpoint-form arcs built by construction (radii as lambda x chord/2 with lambda far below, just around, exactly at and far above 1; rotations incl. multiples of 90 and beyond +-360; all flag pairs; negative, zero radii; coincident endpoints) through Arc(...) and Path('M.. A..'): exact endpoints, every sampled point equal to the reference point and on the reference ellipse, sweep sign/extent vs flags, radii, rotation, and the degenerate cases as chord / nothing. Exploration.",
        note="Reference in harness/ref/arcref.py from the SVG implementation notes; tolerance 1e-9 scale-relative plus the (rmax/rmin)^2 conditioning term, 1e-6 on the exact-fit/scaled-up class where the library takes the square root of a rounding-noise radicand.",
        ref="5/C05",
    ),
    "C02": dict(
        technique="property-based testing: segment/path/shape x matrix-class products with the matrix applied independently to sampled points (metamorphic), incl. composition and Subpath windows",
        text="Every segment kind (incl. degenerate Beziers, endpoint- and centre-form arcs up to beyond a full turn) x 10 matrix classes (identity .. shear .. general with negative determinant, condition <= 400): (X*M).point(t), stored points, arc orientation, (X*A)*B = X*(A*B); paths via abs(path*M), *= then reify, lazy segments, Subpath *= M window; shapes via (shape*M).segments(), abs(Path(shape)*M), Path(shape)*M;reify. Every (kind x class) cell must be non-empty. Exploration.",
        note="The original's points are the library's untransformed point(t); the matrix is applied by harness arithmetic. Circle/Ellipse own transformed decomposition under non-conformal matrices is the known finding KF-ROUNDSHAPE-TRANSFORMED (pinned by a test).",
        ref="5/C02",
    ),
    "C08": dict(
        technique="property-based testing: constructed extremum structures, matrix classes and containers against a sampling + golden-section oracle of the true extent",
        text="Beziers with constructed per-axis extremum structure (0/1/2 interior extrema, flat axis, near-linear cubics around the 1e-8 cut-off, scales 1e-3..1e3), arcs of all rotation classes and extents from 1e-3 to beyond a full turn; paths, subpath views and basic shapes under the 10 matrix classes with transformed and with_stroke in both values; groups, nested groups, use instances and the svg root. The reported box must be ordered, contain the refined extent (1e-9 scale-relative) and touch it on all four sides (1e-7), grown by the effective half stroke width only when a stroke is painted; containers must equal the union of their rendered leaves or be None. Exploration.",
        note="Extent oracle: 97 samples per segment plus golden-section refinement of every near-top local extremum of the harness' own evaluation of the segment (verified against point(t)); arcs get a conditioning term and their own closure gap. Circle/Ellipse own boxes under non-conformal matrices are KF-ROUNDSHAPE-TRANSFORMED.",
        ref="5/C08",
    ),
    "C15": dict(
        technique="property-based testing: generated segments/paths against Gauss-Legendre quadrature (reference), metamorphic isometry/scale/reverse relations, and a recomputed point(t) walk",
        text="Lines, quadratic and cubic Beziers incl. degenerate classes, circular and eccentric arcs of any extent, and multi-subpath paths: length(error=e) against a two-resolution quadrature of the speed function (lines, closes, quadratics and circular arcs held to max(e, 1e-10 L)); invariance under rotation, translation, reflection and reversal and scaling by |s| (no reference involved); path length = sum of segment lengths with moves contributing 0; point(0), point(1) and point(t) recomputed from the library's own cumulative segment lengths. Exploration.",
        note="Cubic/eccentric-arc accuracy is the known finding KF-SUBDIVISION-LENGTH: inside that class only under-estimates not shorter than the 64-chord polygon are tolerated. Objects at scale <= 100, error down to 1e-6 (1e-7 thorough): bounded by size and count, not time.",
        ref="5/C15",
    ),
    "C19": dict(
        technique="property-based testing: generated arcs (alone and embedded in paths) with a validity predicate over the Bezier chain using the true point-to-ellipse distance",
        text="Arcs with radii ratio up to 100, any rotation and extents from 1e-3 to 2.5 pi in both directions, converted by as_cubic_curves/as_quad_curves at default and explicit counts and by approximate_arcs_with_cubics/quads inside generated paths: chain ends equal the arc's end points exactly, consecutive curves join exactly, sampled points within 1e-3 (cubic) / 1e-2 (quadratic) radii of the ellipse by true distance, slice midpoints next to the arc's own mid-slice points, doubling the count does not increase the error, zero extent yields no curves, other path segments untouched. Exploration.",
        note="Distance oracle: first-order implicit estimate when far below the bound, otherwise sampled + golden-section true distance. Bounds apply at or above the default subdivision (30 degree slices).",
        ref="5/C19",
    ),
    "C16": dict(
        technique="model-based property testing over operation histories (reverse path / reverse subpath / transform+reify) against a subpath model of the path",
        text="Generated paths of 1..4 subpaths (open, closed with zero and non-zero closes, single-segment, move-only, all segment kinds) with histories of 1..6 operations: reverse the path, reverse subpath i, multiply by an isometry/similarity and reify. After every step the library path is compared with the model: kinds in order, each drawn segment pointwise q(t) = p(1-t), connectivity, closes returning to their own subpath, untouched segments outside a reversed window; double reversal must equal the original (== and pointwise). Exploration.",
        note="Model evaluators are copies of the original segments composed with t -> 1-t and the matrix by harness arithmetic. Paths with a subpath that has no move of its own are the known finding KF-REVERSE-NO-MOVE (generated in a separate part, reported only under that finding).",
        ref="5/C16",
    ),
    "C18": dict(
        technique="stateful property testing: generated object x derivation x mutation histories with a value-snapshot invariant on the untouched side",
        text="Objects of every family (Point, Matrix, Color, Length, each segment kind, Path, each basic shape incl. degenerate ones, Group with nested children, Text, Image stub) x derivations {copy, x*M, abs, Path(x), Path(subpath), x + data, ~M, A*B, group copy} x histories of 1..6 public mutations applied to either side (in-place *=, reify, point coordinate assignment, list edits, paint edits, transform edits, values edits, stroke width, child edits, reverse). After every step the public-state snapshot of the side that was not mutated must be unchanged; derivations must not change their operands; copies must equal their source. Exploration.",
        note="Snapshots cover public state only (stored points, kinds, transform entries, apply flag, paint values, stroke width, id, values dict, shape attributes, children recursively).",
        ref="5/C18",
    ),
    "C06": dict(
        technique="property-based testing: generated shape parameters x construction routes x matrix classes against the SVG 2 chapter 10 decompositions written out by the harness",
        text="Rect (all 24 combinations of rx/ry omitted/zero/normal/over-large/percent), circle, ellipse, line, polyline and polygon (0..8 points, repeats) built from keywords, positional arguments or attribute dictionaries of strings, under the 10 matrix classes: the untransformed decomposition must equal the chapter 10 path (kinds, start point, direction, order; straight edges at 1e-12, arcs on the F.6 reference at 1e-9), the resolved rect radii must follow the auto/clamp table, abs(Path(shape)), lazily transformed segments, the shape's own transformed segments and Path(shape.d()) must equal the matrix image of that decomposition, shape == Path(shape) == reified path (and != the untransformed path), bounding boxes of all forms agree with the sampled extent, straight-shape lengths agree, degenerate shapes produce nothing. Exploration.",
        note="Arcs through d() are compared at six significant digits x eccentricity (KF-ARC-D-6DIGITS, C07); round shapes' own transformed decomposition under non-conformal matrices is KF-ROUNDSHAPE-TRANSFORMED; lengths of curved shapes are left to C15.",
        ref="5/C06",
    ),
    "C07": dict(
        technique="property-based testing: round trip Path(p.d(relative, smooth)) over generated and parsed paths with a two-sided arc oracle (written tokens / pointwise fidelity)",
        text="Programmatic paths (1..3 subpaths, closes, subpaths after a close without a move, all segment kinds, smooth-eligible pairs and decoys, near-coincident points, arcs incl. scaled-up and near-half-turn) and parsed paths carrying as-parsed relative/smooth flags, x relative in {None, False, True} x smooth in {None, False, True}, through d(), str() and Subpath.d(): the text must be grammar-conforming (reference interpreter), re-parse to the same kinds, lines/Beziers within (n+1) x 1e-11 x scale pointwise and on their control points; arcs: written radii/rotation/flags/end must be the arc's own, and the re-parsed points within the conditioning-aware 12-digit bound. Exploration.",
        note="An arc deviation beyond the 12-digit bound but inside the six-digit envelope is the known finding KF-ARC-D-6DIGITS (pinned by test_svg_example14). Leading fragments without a move and subpath views without a move of their own cannot carry their start point in d(): counted as not applicable.",
        ref="5/C07",
    ),
    "C03": dict(
        technique="property-based testing: grammar-directed SVG documents x parser configurations against an independent reference renderer, plus the reify=True/False metamorphic relation",
        text="Generated documents over svg/g/defs/use (nested use, use of groups, forward references)/the seven shape elements/nested svg with viewBox and preserveAspectRatio, transforms on any element, px/pt/pc/in and percentage attributes, display:none subtrees, crossed with ppi, caller width/height (numbers or lengths) and caller transform. For both reify settings the rendered shapes must be the reference's, in document order, each abs(Path(shape)) pointwise equal to the chapter-10 decomposition mapped through caller transform x viewport transforms x ancestor transforms x use translate; nothing from defs, display:none or unreferenced definitions. Exploration.",
        note="Reference renderer in harness/ref/docref.py (uses the C04 transform algebra, the C11 viewport algorithm, the C06 decompositions and the C01 path interpreter of the harness). Disputed or library-default sub-domains are not generated (listed in the evidence assumptions); inch-family translations are the known finding KF-TRANSFORM-MIXED-UNITS (two witness documents).",
        ref="5/C03",
    ),
    "C14": dict(
        technique="property-based testing: generated documents with per-element, per-property source subsets (attribute, *, type, .class, type.class, #id, inline) against an independent cascade evaluator and the effective-stroke-width law",
        text="Documents over the shape vocabulary with nesting and use; for every element and each of fill, stroke, stroke-width, fill-opacity, stroke-opacity (and display by rule) a generated subset of the seven sources sets a value; rules are emitted in generated order with selector lists, comments and optional semicolons; translucent paints, currentColor against the root/caller colour, transforms of either determinant sign, vector-effect, both reify settings. Each rendered shape's fill and stroke (RGBA or none) must be the cascade's (specificity, source order, inheritance through g/svg/use, defaults, opacity folded multiplicatively) and its effective stroke width base x sqrt|det(accumulated transform)| (viewport transform alone for non-scaling strokes). Exploration.",
        note="Cascade evaluator in harness/ref/docref.py. Not generated: !important, percentage widths, multi-class elements, color away from the root, rules selecting the outermost svg (the streaming parser reads <style> after it), vector-effect with disputed viewport transforms.",
        ref="5/C14",
    ),
    "C10": dict(
        technique="property-based fault injection: generated documents with malformed attribute values and retargeted use references; never-raises / hang predicate plus a differential check against the document with the offending elements removed",
        text="C03 documents with a fault plan of 1..3 faults: attribute values of graphics, container or use elements replaced by malformed text from per-type dictionaries (transform, paint, length, points, viewBox, path data, stroke width) and use references retargeted to a missing id, the use itself, an ancestor or a mutual cycle. SVG.parse in the default error mode must return (no exception of any type, no hang), and every shape rendered by the document with the offenders removed (their subtrees and every use instance reaching them) must appear in the faulty parse, in the same order, with identical geometry, fill, stroke and stroke width. Exploration over fault sequences.",
        note="Nothing is asserted about the offending element or its subtree. Hang detector: 30 s wall clock against a typical 3 ms parse. Mixed-unit translations (KF-TRANSFORM-MIXED-UNITS) are not used as faults.",
        ref="5/C10",
    ),
    "C20": dict(
        technique="property-based testing: three-generation write/parse round trip over generated documents and constructor-built trees, through string_xml and write_xml (plain and gzip)",
        text="C03 documents with explicit paint (parsed with reify True/False) and SVG/Group trees built through the constructors (every shape kind, explicit fill/stroke, transforms of either determinant sign on shapes or through group *= M, nested groups, optional viewBox), written with string_xml() or write_xml() to .svg and .svgz: the text must be well-formed XML (xml.etree), its parse must have the same shapes in the same order with the same ids, fill, stroke (colour and alpha), effective stroke width and geometry within the six-decimal bound of the written matrices; writing the second generation and parsing again must reproduce it (stability). Exploration.",
        note="Bounds derived from the writer's formats (%f matrices, 12-digit path coordinates) and the product of enclosing viewport scales; arcs written as path data carry C07's six-digit finding (KF-ARC-D-6DIGITS) and are reported under it when inside its envelope.",
        ref="5/C20",
    ),
}

REASON_PENDING = "no check registered yet in this build; the design (DESIGN.md section 5) covers it with property-based testing"


def main():
    props = [json.loads(l)["id"] for l in open(os.path.join(HERE, "properties.jsonl"))]
    checks = []
    for pid in props:
        if pid not in CHECKS:
            continue
        c = CHECKS[pid]
        checks.append({
            "property_id": pid,
            "quick_cmd": "/venv/bin/python vp_check.py %s --tier quick" % pid,
            "thorough_cmd": "/venv/bin/python vp_check.py %s --tier thorough" % pid,
            "evidence_file": "evidence/%s.json" % pid,
            "replay_cmd_template": "/venv/bin/python vp_check.py %s --replay {path}" % pid,
            "engine": "pbt-runner",
            "level_claimed": {"category": "exploration", "text": c["text"], "design_ref": c["ref"]},
            "level_note": c["note"],
            "technique": c["technique"],
        })
    manifest = {
        "version": 1,
        "setup_cmd": "/venv/bin/python tools/setup.py",
        "hooks": {
            "guard": "SVGELEMENTS_VERIF",
            "enable": "no hooks are needed: every observation is public API; checks import /repo's working tree directly (VERIF_REPO overrides the path)",
            "baseline_off_cmd": "cd /repo && /venv/bin/python -m pytest -q -p no:cacheprovider --timeout=900 --continue-on-collection-errors",
            "source_commits": [],
            "add_only": True,
        },
        "engines": [
            {
                "name": "pbt-runner",
                "path": "harness/core.py",
                "serves_properties": [c["property_id"] for c in checks],
                "kind_free_text": "Hypothesis 6.168 (seeded, one binary draw per case decoded by a data provider) + itertools enumeration of finite sub-domains + atheris targets for the two text parsers; collect-bucket-shrink runner with committed known-findings list",
            }
        ],
        "checks": checks,
        "notes": "All checks run under /venv/bin/python (no numpy: the pure-Python code paths are the code under test). VERIF_SEED selects the seed; VERIF_REPO (default /repo) selects the tree.",
        "not_applicable": [{"property_id": p, "reason": REASON_PENDING} for p in props if p not in CHECKS],
    }
    with open(os.path.join(HERE, "MANIFEST.json"), "w") as f:
        json.dump(manifest, f, indent=1)
        f.write("\n")
    try:
        import jsonschema

        schema = json.load(open("/root/.vp/MANIFEST.schema.json"))
        jsonschema.validate(manifest, schema)
        print("MANIFEST.json valid; %d checks" % len(checks))
    except ImportError:
        print("MANIFEST.json written (%d checks); jsonschema not available for validation here" % len(checks))


if __name__ == "__main__":
    main()
