#!/venv/bin/python
"""
Re-applies every kept seeded change to a scratch copy of /repo's package (outside /repo and /verif, removed afterwards)
and runs the quick check of the seeded property (plus the first check recorded as detecting it, if that is another one)
against the copy.  A development tool like mutants/selftest.py: it shows that the checks still catch the seeded changes
on the current tree.

    tools/seed_rerun.py [seed id ...] [--jobs N]
"""
import glob
import json
import os
import shutil
import subprocess
import sys
import tempfile
from concurrent.futures import ThreadPoolExecutor

VERIF = os.path.dirname(os.path.dirname(os.path.abspath(__file__)))
REPO = os.environ.get("VERIF_REPO", "/repo")


def run_one(meta_path):
    m = json.load(open(meta_path))
    sid = m["id"]
    if m.get("neutralised_by"):
        return sid, "ok", "not run: harmless since fix %s" % m["neutralised_by"]
    tmp = tempfile.mkdtemp(prefix="svgseed_")
    try:
        shutil.copytree(os.path.join(REPO, "svgelements"), os.path.join(tmp, "svgelements"))
        patch = os.path.join(os.path.dirname(meta_path), "patch.diff")
        r = subprocess.run(["patch", "-p1", "-F3", "--no-backup-if-mismatch", "-i", patch], cwd=tmp, capture_output=True, text=True)
        if r.returncode != 0:
            return sid, "PATCH-DOES-NOT-APPLY", (r.stdout + r.stderr)[-200:]
        r = subprocess.run(["/venv/bin/python", "-c", "import sys; sys.path.insert(0, %r); import svgelements" % tmp], capture_output=True, text=True)
        if r.returncode != 0:
            return sid, "BROKEN", r.stderr[-200:]
        checks = [m["property"]] if m["property"] in m["detected_by"] else m["detected_by"][:1]
        out = []
        for c in checks:
            env = dict(os.environ, VERIF_REPO=tmp, VERIF_OUT=os.path.join(tmp, "out"), PYTHONHASHSEED="0")
            r = subprocess.run(["/venv/bin/python", os.path.join(VERIF, "vp_check.py"), c, "--tier", "quick"], capture_output=True, text=True, env=env, cwd=VERIF)
            viol = [l for l in r.stdout.splitlines() if l.startswith("VIOLATION")]
            bucket = [l.strip() for l in r.stdout.splitlines() if l.strip().startswith("bucket:")]
            out.append("%s %s %s" % (c, "DETECTED" if (r.returncode == 1 and viol) else "MISSED(exit %d)" % r.returncode, bucket[0] if bucket else ""))
        return sid, "ok", "; ".join(out)
    finally:
        shutil.rmtree(tmp, ignore_errors=True)


def main(argv):
    jobs = 8
    if "--jobs" in argv:
        i = argv.index("--jobs")
        jobs = int(argv[i + 1])
        argv = argv[:i] + argv[i + 2:]
    metas = sorted(glob.glob(os.path.join(VERIF, "seeded", "*", "meta.json")))
    if argv:
        metas = [p for p in metas if os.path.basename(os.path.dirname(p)) in argv]
    missed = 0
    with ThreadPoolExecutor(max_workers=jobs) as ex:
        for sid, status, detail in ex.map(run_one, metas):
            print("%-8s %-22s %s" % (sid, status, detail))
            if status != "ok" or "MISSED" in detail:
                missed += 1
    print("%d seeded changes, %d not detected / not applicable" % (len(metas), missed))
    return 1 if missed else 0


if __name__ == "__main__":
    sys.exit(main(sys.argv[1:]))
