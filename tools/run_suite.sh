#!/bin/bash
# Runs the repository's pinned suite (guard off) and compares with BASELINE.json's stable_pass list.
# usage: tools/run_suite.sh [repo-dir]
REPO=${1:-/repo}
OUT=$(mktemp /tmp/suite.XXXXXX.xml)
cd "$REPO" && env -u SVGELEMENTS_VERIF /venv/bin/python -m pytest -q -p no:cacheprovider --timeout=900 --continue-on-collection-errors -n 12 --junitxml="$OUT" >/dev/null 2>&1
/venv/bin/python - "$OUT" <<'PY'
import json, sys, xml.etree.ElementTree as ET
base = json.load(open('/root/.vp/BASELINE.json'))
stable = set(base['stable_pass'])
t = ET.parse(sys.argv[1])
passed = set()
for tc in t.iter('testcase'):
    name = "%s::%s" % (tc.get('classname'), tc.get('name'))
    if not any(ch.tag in ('failure', 'error', 'skipped') for ch in tc):
        passed.add(name)
missing = sorted(stable - passed)
print("suite: %d passed, %d of %d baseline tests passing" % (len(passed), len(stable & passed), len(stable)))
for m in missing:
    print("  BASELINE TEST NOT PASSING:", m)
sys.exit(1 if missing else 0)
PY
rc=$?
rm -f "$OUT"
exit $rc
