#!/venv/bin/python
"""MANIFEST.setup_cmd: offline, idempotent. Makes sure hypothesis is importable by /venv/bin/python and installs
atheris (cp312 wheel from the offline wheelhouse) into /verif/.deps for the fuzz targets."""
import os
import subprocess
import sys

HERE = os.path.dirname(os.path.dirname(os.path.abspath(__file__)))
WHEELS = "/opt/veriftools/wheels"


def pip(*args):
    cmd = ["/venv/bin/python", "-m", "pip", "install", "--no-index", "--find-links", WHEELS, "--quiet"] + list(args)
    return subprocess.call(cmd)


def main():
    rc = 0
    try:
        import hypothesis  # noqa: F401
    except ImportError:
        rc |= pip("hypothesis")
    deps = os.path.join(HERE, ".deps")
    if not os.path.isdir(os.path.join(deps, "atheris")):
        r = pip("--target", deps, "atheris")
        if r != 0:
            print("setup: atheris could not be installed; the fuzz parts of C09/C10 will be skipped and say so")
    os.makedirs(os.path.join(HERE, "evidence"), exist_ok=True)
    print("setup done")
    return rc


if __name__ == "__main__":
    sys.exit(main())
