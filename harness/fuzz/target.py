#!/venv/bin/python
"""
atheris (coverage-guided, libFuzzer) entry point with the property's oracle inside the target.

    target.py <property> <outfile.json> <corpus-dir> [libFuzzer flags: -runs=N -seed=S -max_len=L ...]

A violation does not abort the campaign: the case is written into the result file and fuzzing continues, so one
shallow defect cannot hide what lies behind it.  libFuzzer ends the process itself (atexit handlers do not run), so
the result file is rewritten every 2000 executions and once more when the requested number of runs is reached.
"""
import json
import os
import sys
import time

HERE = os.path.dirname(os.path.dirname(os.path.dirname(os.path.abspath(__file__))))
sys.path.insert(0, HERE)
sys.path.append(os.path.join(HERE, ".deps"))

import atheris  # noqa: E402

from harness import core  # noqa: E402

prop = sys.argv[1]
outfile = sys.argv[2]
rest = sys.argv[3:]
runs = 0
for a in rest:
    if a.startswith("-runs="):
        runs = int(a.split("=")[1])

sys.path.insert(0, core.REPO)
with atheris.instrument_imports(include=["svgelements"]):
    import svgelements  # noqa: F401
core.import_library()

import importlib  # noqa: E402

mod = importlib.import_module("harness.props.%s" % prop.lower())
decode = mod.fuzz_decode
check = mod.fuzz_check
state = {"n": 0, "status": {}, "buckets": {}, "known": {}, "nontrivial": 0, "samples": [], "t0": time.time(), "labels": {}}


def flush(final=False):
    out = dict(state)
    out["wall"] = time.time() - state["t0"]
    out["final"] = final
    tmp = outfile + ".tmp"
    with open(tmp, "w") as f:
        json.dump(out, f, default=repr)
    os.replace(tmp, outfile)


def one(data):
    case = decode(data)
    if case is None:
        return
    out = core.guarded(check, case)
    state["n"] += 1
    state["status"][out.status] = state["status"].get(out.status, 0) + 1
    for l in out.labels:
        if l.startswith(("outcome:", "class:", "fault:")):
            state["labels"][l] = state["labels"].get(l, 0) + 1
    if out.nontrivial:
        state["nontrivial"] += 1
        if len(state["samples"]) < 8 and state["nontrivial"] % 97 == 1:
            state["samples"].append(case)
    if out.status == "violation":
        b = state["buckets"].get(out.bucket)
        if b is None or len(json.dumps(case, default=repr)) < len(json.dumps(b["case"], default=repr)):
            state["buckets"][out.bucket] = {"case": case, "detail": out.detail, "count": (b or {}).get("count", 0) + 1}
        else:
            b["count"] += 1
    elif out.status == "known":
        state["known"][out.finding] = state["known"].get(out.finding, 0) + 1
    if state["n"] % 2000 == 0 or (runs and state["n"] >= runs - 1):
        flush(final=bool(runs and state["n"] >= runs - 1))


def main():
    flush()
    atheris.Setup([sys.argv[0]] + rest, one)
    atheris.Fuzz()


if __name__ == "__main__":
    main()
