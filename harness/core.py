"""
Core of the checking machinery: outcomes, collection, bucketing, shrinking, evidence, exit codes.

A property module (harness/props/cXX.py) provides

    PROPERTY      "C01"
    RULE          text: how cases are generated and what makes one non-trivial
    ASSUMPTIONS   list of strings
    TOLERANCES    dict (recorded in evidence)
    parts(tier)   -> list of Part
    check(case)   -> Outcome           (case is plain JSON-able data)

Every generated case is plain data (dict / list / str / number), so that a failing case *is* its replay
file.  check() never asserts; it classifies.  The runner executes every part to its full budget, records the
first and the smallest case of every violation bucket, shrinks unknown buckets with a second seeded Hypothesis
run, writes replay files, prints VIOLATION / KNOWN-FINDING lines and writes the evidence file.
"""
import hashlib
import json
import math
import os
import sys
import time
import traceback
from collections import Counter, OrderedDict

VERIF_DIR = os.path.dirname(os.path.dirname(os.path.abspath(__file__)))
REPO = os.environ.get("VERIF_REPO", "/repo")
# where evidence and newly found replay files go; the mutation self-test points this at a scratch directory
OUT_DIR = os.environ.get("VERIF_OUT", VERIF_DIR)


class HarnessError(Exception):
    pass


class Timeout(BaseException):
    """raised by time_limit(); a BaseException so that library code catching Exception cannot swallow it"""


class time_limit(object):
    """Hang detector: `with time_limit(20):` raises Timeout if the body runs longer (wall clock, main thread only).
    Only for operations that normally take milliseconds - the margin is 3-4 orders of magnitude."""

    def __init__(self, seconds):
        self.seconds = seconds

    def _fire(self, signum, frame):
        raise Timeout()

    def __enter__(self):
        import signal

        self._old = signal.signal(signal.SIGALRM, self._fire)
        signal.setitimer(signal.ITIMER_REAL, self.seconds)
        return self

    def __exit__(self, *exc):
        import signal

        signal.setitimer(signal.ITIMER_REAL, 0)
        signal.signal(signal.SIGALRM, self._old)
        return False


# ----------------------------------------------------------------------------------------------------------
# importing the code under test from the working tree


def import_library():
    """Put $VERIF_REPO first on sys.path and make sure that is where svgelements comes from."""
    if sys.path[0] != REPO:
        sys.path.insert(0, REPO)
    for name in list(sys.modules):
        if name == "svgelements" or name.startswith("svgelements."):
            mod = sys.modules[name]
            f = getattr(mod, "__file__", "") or ""
            if not os.path.abspath(f).startswith(os.path.abspath(REPO) + os.sep):
                del sys.modules[name]
    try:
        import numpy  # noqa: F401

        raise HarnessError(
            "numpy is importable: svgelements would take its numpy/scipy code paths, which are not the code "
            "under test (see DESIGN.md section 2)"
        )
    except ImportError:
        pass
    import svgelements

    f = os.path.abspath(svgelements.__file__)
    if not f.startswith(os.path.abspath(REPO) + os.sep):
        raise HarnessError("svgelements imported from %s, not from %s" % (f, REPO))
    return svgelements


# ----------------------------------------------------------------------------------------------------------
# outcomes


class Outcome(object):
    __slots__ = ("status", "bucket", "detail", "labels", "nontrivial", "finding", "reason")

    def __init__(self, status, bucket=None, detail=None, labels=(), nontrivial=False, finding=None, reason=None):
        self.status = status  # ok | excluded | known | violation
        self.bucket = bucket
        self.detail = detail
        self.labels = tuple(labels)
        self.nontrivial = nontrivial
        self.finding = finding
        self.reason = reason


class Obs(object):
    """Collects labels while a case is being checked and produces the outcome."""

    def __init__(self):
        self.labels = []
        self.nontrivial = False
        self.known_detail = None

    def label(self, *names):
        for n in names:
            self.labels.append(n)

    def ok(self, nontrivial=None):
        if nontrivial is not None:
            self.nontrivial = nontrivial
        return Outcome("ok", labels=self.labels, nontrivial=self.nontrivial)

    def excluded(self, reason):
        return Outcome("excluded", reason=reason, labels=self.labels)

    def known(self, finding, detail=None):
        return Outcome("known", finding=finding, detail=detail, labels=self.labels, nontrivial=self.nontrivial)

    def violation(self, bucket, detail=None):
        return Outcome("violation", bucket=bucket, detail=detail, labels=self.labels, nontrivial=self.nontrivial)


def library_frame(tb):
    """Innermost frame of a traceback that lies inside svgelements, as 'function:line'; None if none does."""
    found = None
    for frame, lineno in traceback.walk_tb(tb):
        fn = frame.f_code.co_filename
        if os.sep + "svgelements" + os.sep in fn and not fn.startswith(VERIF_DIR):
            found = frame.f_code.co_name
    return found


def innermost_is_library(tb):
    last = None
    for frame, lineno in traceback.walk_tb(tb):
        last = frame
    if last is None:
        return False
    fn = last.f_code.co_filename
    return os.sep + "svgelements" + os.sep in fn and not fn.startswith(VERIF_DIR)


def guarded(check, case):
    """Run check(case); an exception escaping from library code is a violation bucket, one raised by harness
    code is a harness error."""
    try:
        return check(case)
    except HarnessError:
        raise
    except RecursionError as e:
        fn = library_frame(e.__traceback__)
        if fn is not None:
            return Outcome("violation", bucket="exception:RecursionError@%s" % fn, detail="RecursionError")
        raise
    except Exception as e:
        tb = e.__traceback__
        fn = library_frame(tb)
        if fn is not None and innermost_is_library(tb):
            return Outcome(
                "violation",
                bucket="exception:%s@%s" % (type(e).__name__, fn),
                detail="%s: %s" % (type(e).__name__, str(e)[:200]),
            )
        raise HarnessError(
            "exception in harness code while checking %s\n%s"
            % (json.dumps(case, default=repr)[:500], "".join(traceback.format_exception(type(e), e, tb)))
        )


# ----------------------------------------------------------------------------------------------------------
# parts


class Part(object):
    """One generator of a property's check.

    kind 'exhaustive': source is a callable returning an iterable of cases (a finite space, enumerated fully).
    kind 'sampled'   : source is a callable returning a Hypothesis strategy of cases; budget = number of
                       examples per shard.
    """

    def __init__(self, name, kind, source, budget=None, check=None):
        self.name = name
        self.kind = kind
        self.source = source
        self.budget = budget
        self.check = check


def canon(case):
    return json.dumps(case, sort_keys=True, separators=(",", ":"), default=repr)


def case_hash(case):
    return hashlib.blake2b(canon(case).encode("utf-8", "replace"), digest_size=8).digest()


def case_size(case):
    return len(canon(case))


def derive_seed(seed, prop, part, shard):
    h = hashlib.sha256(("%d|%s|%s|%d" % (seed, prop, part, shard)).encode()).digest()
    return int.from_bytes(h[:8], "big")


class Stats(object):
    def __init__(self):
        self.evaluations = 0
        self.status = Counter()
        self.labels = Counter()
        self.excluded = Counter()
        self.known = Counter()
        self.known_witness = {}
        self.nontrivial = set()
        self.buckets = OrderedDict()  # bucket -> dict(count, first, smallest, detail, part)
        self.samples = []
        self.sample_stride = 1
        self.parts = OrderedDict()
        self.exhaustive_parts = []
        self.hangs = 0

    def add(self, part, case, out):
        self.evaluations += 1
        if out.status == "violation" and str(out.bucket).startswith("hang:"):
            self.hangs += 1
        self.status[out.status] += 1
        pc = self.parts.setdefault(part, Counter())
        pc["evaluations"] += 1
        for l in out.labels:
            self.labels[l] += 1
        if out.status == "excluded":
            self.excluded[out.reason] += 1
            return
        if out.nontrivial:
            h = case_hash(case)
            if h not in self.nontrivial:
                self.nontrivial.add(h)
                pc["nontrivial"] += 1
                n = pc["nontrivial"]
                # keep the first 3 and then a thinning reservoir of later ones
                if n <= 3 or (n % self.sample_stride == 0 and len(self.samples) < 24):
                    self.samples.append({"part": part, "case": case})
                    if len(self.samples) >= 12:
                        self.sample_stride *= 4
        if out.status == "known":
            self.known[out.finding] += 1
            if out.finding not in self.known_witness or case_size(case) < case_size(self.known_witness[out.finding]["case"]):
                self.known_witness[out.finding] = {"part": part, "case": case, "detail": out.detail}
        elif out.status == "violation":
            b = self.buckets.get(out.bucket)
            if b is None:
                self.buckets[out.bucket] = {
                    "count": 1,
                    "first": case,
                    "smallest": case,
                    "detail": out.detail,
                    "part": part,
                }
            else:
                b["count"] += 1
                if case_size(case) < case_size(b["smallest"]):
                    b["smallest"] = case
                    b["detail"] = out.detail

    def merge(self, other):
        self.evaluations += other.evaluations
        self.status.update(other.status)
        self.labels.update(other.labels)
        self.excluded.update(other.excluded)
        self.known.update(other.known)
        for k, v in other.known_witness.items():
            if k not in self.known_witness or case_size(v["case"]) < case_size(self.known_witness[k]["case"]):
                self.known_witness[k] = v
        self.nontrivial |= other.nontrivial
        for k, b in other.buckets.items():
            mine = self.buckets.get(k)
            if mine is None:
                self.buckets[k] = b
            else:
                mine["count"] += b["count"]
                if case_size(b["smallest"]) < case_size(mine["smallest"]):
                    mine["smallest"] = b["smallest"]
                    mine["detail"] = b["detail"]
        room = 24 - len(self.samples)
        if room > 0:
            self.samples.extend(other.samples[: max(2, room // 4)])
        for p, c in other.parts.items():
            self.parts.setdefault(p, Counter()).update(c)
        for p in other.exhaustive_parts:
            if p not in self.exhaustive_parts:
                self.exhaustive_parts.append(p)


# ----------------------------------------------------------------------------------------------------------
# running parts


def _settings(budget, shrink):
    from hypothesis import HealthCheck, Phase, settings

    phases = [Phase.generate]
    if shrink:
        phases.append(Phase.shrink)
    return settings(
        max_examples=budget,
        database=None,
        deadline=None,
        derandomize=False,
        report_multiple_bugs=False,
        suppress_health_check=list(HealthCheck),
        phases=phases,
        print_blob=False,
    )


def run_sampled(mod, part, stats, seed, budget):
    import hypothesis
    from hypothesis import given

    check = part.check or mod.check
    strategy = part.source()

    class _Stop(BaseException):
        pass

    @hypothesis.seed(seed)
    @_settings(budget, shrink=False)
    @given(strategy)
    def collect(case):
        stats.add(part.name, case, guarded(check, case))
        if stats.hangs >= 2:
            raise _Stop()  # every further hang costs the full time limit: two witnesses are enough

    try:
        collect()
    except _Stop:
        pass


SHRINK_SECONDS = float(os.environ.get("VERIF_SHRINK_SECONDS", "20"))


def shrink_bucket(mod, part, seed, budget, bucket):
    """Second, seeded run of the same part in which membership of `bucket` is the failure; Hypothesis shrinks
    it and the last failing case it executes is the minimal one."""
    import hypothesis
    from hypothesis import given

    check = part.check or mod.check
    strategy = part.source()
    last = {}

    class _Hit(Exception):
        pass

    @hypothesis.seed(seed)
    @_settings(budget, shrink=True)
    @given(strategy)
    def hunt(case):
        if "case" in last and time.time() > last["deadline"]:
            return  # shrink budget used up: let the shrinker run dry; the smallest failing case seen is kept
        out = guarded(check, case)
        if out.status == "violation" and out.bucket == bucket:
            if "case" not in last:
                last["deadline"] = time.time() + SHRINK_SECONDS
            last["case"] = case
            last["detail"] = out.detail
            raise _Hit()

    try:
        hunt()
    except _Hit:
        pass
    except HarnessError:
        raise
    except Exception:
        pass
    return last.get("case"), last.get("detail")


def run_shard(args):
    """Executed in a worker (or inline for the quick tier)."""
    modname, tier, seed, shard, nshards = args
    import importlib

    import_library()
    mod = importlib.import_module(modname)
    stats = Stats()
    t0 = time.time()
    try:
        for part in mod.parts(tier):
            check = part.check or mod.check
            if part.kind == "fuzz":
                continue
            if part.kind == "exhaustive":
                if shard == 0:
                    stats.exhaustive_parts.append(part.name)
                for i, case in enumerate(part.source()):
                    if i % nshards != shard:
                        continue
                    stats.add(part.name, case, guarded(check, case))
            else:
                pseed = derive_seed(seed, mod.PROPERTY, part.name, shard)
                before = set(stats.buckets)
                run_sampled(mod, part, stats, pseed, part.budget)
                new = [b for b in stats.buckets if b not in before and stats.buckets[b]["part"] == part.name]
                for b in new[:4]:
                    if str(b).startswith("hang:"):
                        continue  # shrinking a hang costs the time limit per attempt
                    small, detail = shrink_bucket(mod, part, pseed, part.budget, b)
                    if small is not None and case_size(small) <= case_size(stats.buckets[b]["smallest"]):
                        stats.buckets[b]["smallest"] = small
                        stats.buckets[b]["detail"] = detail
                        stats.buckets[b]["shrunk"] = True
    except HarnessError as e:
        return {"error": str(e)}
    except Exception as e:  # an error in generator code
        return {"error": "".join(traceback.format_exception(type(e), e, e.__traceback__))}
    return {"stats": stats, "wall": time.time() - t0}


def run_fuzz_part(mod, part, seed, total):
    """Coverage-guided campaign: N atheris worker processes (fresh corpus directory each; even workers start from
    the committed seed corpus, odd workers from an empty one), oracle inside the target.  Results are merged into
    `total`; returns a dict for the evidence file."""
    import shutil
    import subprocess

    cfg = part.source
    target = os.path.join(VERIF_DIR, "harness", "fuzz", "target.py")
    deps = os.path.join(VERIF_DIR, ".deps", "atheris")
    if not os.path.isdir(deps):
        return {"skipped": "atheris is not installed in /verif/.deps (run MANIFEST.setup_cmd)"}
    work = os.path.join(OUT_DIR, ".work", "%s-fuzz-%d" % (mod.PROPERTY, os.getpid()))
    shutil.rmtree(work, ignore_errors=True)
    os.makedirs(work)
    procs = []
    nworkers = cfg.get("workers", 16)
    try:
        for w in range(nworkers):
            cdir = os.path.join(work, "corpus%d" % w)
            os.makedirs(cdir)
            if w % 2 == 0 and cfg.get("corpus"):
                src = os.path.join(VERIF_DIR, cfg["corpus"])
                for name in os.listdir(src):
                    shutil.copy(os.path.join(src, name), cdir)
            out = os.path.join(work, "result%d.json" % w)
            cmd = ["/venv/bin/python", target, mod.PROPERTY, out, cdir, "-runs=%d" % cfg["runs"],
                   "-seed=%d" % (derive_seed(seed, mod.PROPERTY, part.name, w) % (2 ** 31 - 1) + 1),
                   "-max_len=%d" % cfg.get("max_len", 256), "-timeout=60", "-rss_limit_mb=4096"]
            if cfg.get("dict"):
                cmd.append("-dict=%s" % os.path.join(VERIF_DIR, cfg["dict"]))
            env = dict(os.environ, PYTHONHASHSEED="0")
            procs.append((w, out, subprocess.Popen(cmd, stdout=subprocess.DEVNULL, stderr=open(os.path.join(work, "log%d" % w), "w"), env=env, cwd=VERIF_DIR)))
        execs = 0
        info = {"workers": nworkers, "runs_per_worker": cfg["runs"], "executions": 0, "crashed_workers": 0, "labels": {}}
        for w, out, p in procs:
            try:
                p.wait(timeout=cfg.get("timeout", 1800))
            except subprocess.TimeoutExpired:
                p.kill()
                info["timed_out"] = info.get("timed_out", 0) + 1
            try:
                with open(out) as f:
                    res = json.load(f)
            except Exception:
                info["crashed_workers"] += 1
                continue
            if p.returncode not in (0, None) and not res.get("final"):
                # libFuzzer stopped on something the target did not classify (timeout, OOM, interpreter crash)
                info["crashed_workers"] += 1
                tail = open(os.path.join(work, "log%d" % w)).read()[-600:]
                total.buckets.setdefault("fuzz-worker-stopped", {"count": 0, "first": {"log": tail}, "smallest": {"log": tail}, "detail": tail[-300:], "part": part.name})["count"] += 1
            info["executions"] += res["n"]
            total.evaluations += res["n"]
            total.parts.setdefault(part.name, Counter())["evaluations"] += res["n"]
            total.parts[part.name]["nontrivial_not_deduplicated"] += res["nontrivial"]
            for k, v in res["status"].items():
                total.status[k] += v
            for k, v in res["labels"].items():
                info["labels"][k] = info["labels"].get(k, 0) + v
            for k, v in res["known"].items():
                total.known[k] += v
                total.known_witness.setdefault(k, {"part": part.name, "case": {"note": "seen by the fuzz target"}, "detail": None})
            for bucket, b in res["buckets"].items():
                mine = total.buckets.get(bucket)
                if mine is None:
                    total.buckets[bucket] = {"count": b["count"], "first": b["case"], "smallest": b["case"], "detail": b["detail"], "part": part.name}
                else:
                    mine["count"] += b["count"]
                    if case_size(b["case"]) < case_size(mine["smallest"]):
                        mine["smallest"] = b["case"]
                        mine["detail"] = b["detail"]
            if w == 0:
                info["samples"] = res["samples"][:4]
        return info
    finally:
        for w, out, p in procs:
            if p.poll() is None:
                p.kill()
        shutil.rmtree(work, ignore_errors=True)


# ----------------------------------------------------------------------------------------------------------
# known findings


def load_known_findings():
    path = os.path.join(VERIF_DIR, "known_findings.json")
    if not os.path.exists(path):
        return []
    with open(path) as f:
        return json.load(f)["findings"]


# ----------------------------------------------------------------------------------------------------------
# top level


def write_replay(prop, bucket, part, case, detail):
    d = os.path.join(OUT_DIR, "replay", prop)
    os.makedirs(d, exist_ok=True)
    h = hashlib.sha256(bucket.encode()).hexdigest()[:12]
    path = os.path.join(d, "found-%s.json" % h)
    with open(path, "w") as f:
        json.dump({"property": prop, "bucket": bucket, "part": part, "detail": detail, "case": case}, f, indent=1, default=repr)
    return path


def _rel(path):
    return os.path.relpath(path, VERIF_DIR) if OUT_DIR == VERIF_DIR else path


def committed_replays(prop):
    d = os.path.join(VERIF_DIR, "replay", prop)
    if not os.path.isdir(d):
        return []
    out = []
    for name in sorted(os.listdir(d)):
        if name.endswith(".json") and not name.startswith("found-"):
            out.append(os.path.join(d, name))
    return out


def find_part_check(mod, partname, tier="quick"):
    for part in mod.parts(tier):
        if part.name == partname:
            return part.check or mod.check
    for part in mod.parts("thorough"):
        if part.name == partname:
            return part.check or mod.check
    return mod.check


def run_replay_file(mod, path):
    with open(path) as f:
        rec = json.load(f)
    check = find_part_check(mod, rec.get("part"))
    return rec, guarded(check, rec["case"])


def main(modname, tier, seed, replay=None, nshards=None):
    import importlib

    t0 = time.time()
    lib = import_library()
    mod = importlib.import_module(modname)
    prop = mod.PROPERTY
    findings = [f for f in load_known_findings() if f["property"] == prop or prop in f.get("also", [])]
    known_ids = {f["id"]: f for f in findings if f["status"] == "known"}

    if replay is not None:
        rec, out = run_replay_file(mod, replay)
        if out.status == "violation":
            print("VIOLATION property=%s replay=%s" % (prop, replay))
            print("  bucket: %s\n  detail: %s" % (out.bucket, out.detail))
            return 1
        if out.status == "known":
            print("KNOWN-FINDING: property=%s %s" % (prop, known_ids.get(out.finding, {}).get("what", out.finding)))
            return 0
        print("replay %s: %s" % (replay, out.status))
        return 0

    total = Stats()
    # 1. committed regression cases and witnesses (plain data, no generator involved)
    replay_results = []
    for path in committed_replays(prop):
        rec, out = run_replay_file(mod, path)
        total.add("replay", rec["case"], out)
        replay_results.append((path, rec, out))

    # 2. generated parts
    if nshards is None:
        nshards = 16 if tier == "thorough" else 1
    jobs = [(modname, tier, seed, s, nshards) for s in range(nshards)]
    if nshards == 1:
        results = [run_shard(jobs[0])]
    else:
        import multiprocessing

        ctx = multiprocessing.get_context("fork")
        with ctx.Pool(min(nshards, os.cpu_count() or 1)) as pool:
            results = pool.map(run_shard, jobs, chunksize=1)
    for r in results:
        if "error" in r:
            print("HARNESS-ERROR property=%s\n%s" % (prop, r["error"]))
            return 2
        total.merge(r["stats"])

    fuzz_info = {}
    for part in mod.parts(tier):
        if part.kind == "fuzz":
            fuzz_info[part.name] = run_fuzz_part(mod, part, seed, total)

    # 3. verdicts
    rc = 0
    lines = []
    violations = 0
    replay_map = {}
    for path, rec, out in replay_results:
        if out.status == "violation":
            replay_map.setdefault(out.bucket, path)
    for bucket, b in total.buckets.items():
        if bucket in replay_map and b["part"] == "replay":
            path = replay_map[bucket]
        else:
            path = write_replay(prop, bucket, b["part"], b["smallest"], b["detail"])
        lines.append("VIOLATION property=%s replay=%s" % (prop, _rel(path)))
        lines.append("  bucket: %s (%d cases)\n  detail: %s" % (bucket, b["count"], b["detail"]))
        violations += 1
    if violations:
        rc = 1
    seen_known = []
    for fid, n in sorted(total.known.items()):
        f = known_ids.get(fid)
        if f is None:
            # a check classified something as a finding that the committed file does not list: that is an alarm
            w = total.known_witness[fid]
            path = write_replay(prop, "unlisted-finding:" + fid, w["part"], w["case"], w["detail"])
            lines.append("VIOLATION property=%s replay=%s" % (prop, _rel(path)))
            lines.append("  the check classified %d cases as finding %s, which known_findings.json does not list" % (n, fid))
            rc = 1
            violations += 1
            continue
        seen_known.append(fid)
        lines.append("KNOWN-FINDING: property=%s %s [%s; %d cases this run]" % (prop, f["what"], fid, n))

    # mandatory classes
    missing = []
    for lab in getattr(mod, "MANDATORY_LABELS", {}).get(tier, []):
        if total.labels.get(lab, 0) == 0:
            missing.append(lab)
    if missing and not violations:
        print("HARNESS-ERROR property=%s generator produced no case of class(es): %s" % (prop, ", ".join(missing)))
        return 2

    wall = time.time() - t0
    evidence = {
        "property_id": prop,
        "tier": tier,
        "seed": seed,
        "level": "exploration",
        "coverage": {
            "evaluations": total.evaluations,
            "distinct_nontrivial": len(total.nontrivial),
            "rule": mod.RULE,
            "samples": total.samples[:16],
            "exhaustive": False,
            "exhaustive_parts": total.exhaustive_parts,
            "parts": {p: dict(c) for p, c in total.parts.items()},
            "status": dict(total.status),
            "classes": dict(sorted(total.labels.items())),
            "excluded": dict(total.excluded),
            "known_findings_seen": dict(total.known),
            "violation_buckets": {k: v["count"] for k, v in total.buckets.items()},
            "shards": nshards,
            "fuzz": fuzz_info,
            "tolerances": getattr(mod, "TOLERANCES", {}),
            "numpy_importable": False,
            "library_file": os.path.abspath(lib.__file__),
            "repo_head": repo_head(),
        },
        "assumptions": list(getattr(mod, "ASSUMPTIONS", [])),
        "wall_s": round(wall, 3),
        "violations": violations,
    }
    os.makedirs(os.path.join(OUT_DIR, "evidence"), exist_ok=True)
    with open(os.path.join(OUT_DIR, "evidence", "%s.json" % prop), "w") as f:
        json.dump(evidence, f, indent=1, default=repr)
        f.write("\n")

    for l in lines:
        print(l)
    print(
        "%s %s seed=%d: %d cases, %d distinct non-trivial, %d excluded, %d known, %d violation bucket(s), %.1fs"
        % (prop, tier, seed, total.evaluations, len(total.nontrivial), total.status.get("excluded", 0),
           total.status.get("known", 0), violations, wall)
    )
    return rc


def repo_head():
    try:
        import subprocess

        out = subprocess.run(["git", "-C", REPO, "rev-parse", "HEAD"], capture_output=True, text=True, timeout=10)
        dirty = subprocess.run(["git", "-C", REPO, "status", "--porcelain", "-uno"], capture_output=True, text=True, timeout=10)
        return out.stdout.strip() + ("+dirty" if dirty.stdout.strip() else "")
    except Exception:
        return "unknown"


# ----------------------------------------------------------------------------------------------------------
# numeric helpers shared by the property modules


def close(a, b, tol):
    return abs(a - b) <= tol


def pclose(p, q, tol):
    return abs(p[0] - q[0]) <= tol and abs(p[1] - q[1]) <= tol


def isnum(v):
    return isinstance(v, (int, float)) and not isinstance(v, bool) and math.isfinite(v)
