"""
Bridge between plain-data cases and library objects (the library is imported lazily from $VERIF_REPO).
"""
import math

from . import core

_lib = None


def L():
    global _lib
    if _lib is None:
        _lib = core.import_library()
    return _lib


def mk_matrix(m):
    return L().Matrix(m[0], m[1], m[2], m[3], m[4], m[5])


def mk_segment(seg, start=None):
    se = L()
    k = seg[0]
    if k == "M":
        return se.Move(start, se.Point(*seg[1])) if start is not None else se.Move(se.Point(*seg[1]))
    if k == "L":
        return se.Line(se.Point(*seg[1]), se.Point(*seg[2]))
    if k == "Q":
        return se.QuadraticBezier(se.Point(*seg[1]), se.Point(*seg[2]), se.Point(*seg[3]))
    if k == "C":
        return se.CubicBezier(se.Point(*seg[1]), se.Point(*seg[2]), se.Point(*seg[3]), se.Point(*seg[4]))
    if k == "A":
        return se.Arc(se.Point(*seg[1]), seg[2], seg[3], seg[4], bool(seg[5]), bool(seg[6]), se.Point(*seg[7]))
    raise core.HarnessError("unknown segment kind %r" % (k,))


def mk_path(segs):
    """Build a Path from plain segments through the public segment constructors (programmatic route)."""
    se = L()
    out = []
    cur = None
    start = None
    for seg in segs:
        k = seg[0]
        if k == "M":
            s = se.Move(se.Point(*cur), se.Point(*seg[1])) if cur is not None else se.Move(se.Point(*seg[1]))
            cur = list(seg[1])
            start = list(cur)
        elif k == "Z":
            s = se.Close(se.Point(*cur), se.Point(*start))
            cur = list(start)
        else:
            s = mk_segment(seg)
            cur = list(seg[-1])
            if start is None:
                start = list(seg[1])
        out.append(s)
    return se.Path(*out) if len(out) != 1 else se.Path(out[0])


CTOR_FORMS = ["pos", "pos", "kw", "dict"]


def path_from_text(text, form="pos"):
    """Path from path data through each documented constructor form: Path(text), Path(d=text), Path({'d': text})"""
    se = L()
    if form == "kw":
        return se.Path(d=text)
    if form == "dict":
        return se.Path({"d": text})
    return se.Path(text)


def path_text_of(segs, fmt="%.12g"):
    """Harness' own serialisation of plain segments to absolute path data (for the parse route)."""
    parts = []
    for seg in segs:
        k = seg[0]
        if k == "M":
            parts.append("M%s,%s" % (fmt % seg[1][0], fmt % seg[1][1]))
        elif k == "Z":
            parts.append("Z")
        elif k == "L":
            parts.append("L%s,%s" % (fmt % seg[2][0], fmt % seg[2][1]))
        elif k == "Q":
            parts.append("Q%s,%s %s,%s" % tuple(fmt % v for v in (seg[2] + seg[3])))
        elif k == "C":
            parts.append("C%s,%s %s,%s %s,%s" % tuple(fmt % v for v in (seg[2] + seg[3] + seg[4])))
        elif k == "A":
            parts.append("A%s,%s %s %d,%d %s,%s" % (fmt % seg[2], fmt % seg[3], fmt % seg[4], seg[5], seg[6], fmt % seg[7][0], fmt % seg[7][1]))
    return " ".join(parts)


def kind_of(seg):
    se = L()
    if isinstance(seg, se.Move):
        return "M"
    if isinstance(seg, se.Close):
        return "Z"
    if isinstance(seg, se.Line):
        return "L"
    if isinstance(seg, se.QuadraticBezier):
        return "Q"
    if isinstance(seg, se.CubicBezier):
        return "C"
    if isinstance(seg, se.Arc):
        return "A"
    return type(seg).__name__


def xy(p):
    """A library point -> (x, y) floats, or None if it is not a real point."""
    if p is None:
        return None
    try:
        x, y = p.x, p.y
    except AttributeError:
        try:
            x, y = p[0], p[1]
        except Exception:
            return None
    if not core.isnum(x) or not core.isnum(y):
        return None
    return (float(x), float(y))


TS = [0.0, 0.125, 0.25, 0.375, 0.5, 0.625, 0.75, 0.875, 1.0]


def sample(seg, ts=TS):
    return [xy(seg.point(t)) for t in ts]


def scale_of(*things):
    """max |coordinate| over nested lists/tuples of numbers (floor 1e-3)"""
    m = 1e-3

    def walk(v):
        nonlocal m
        if isinstance(v, (int, float)) and not isinstance(v, bool):
            if math.isfinite(v):
                m = max(m, abs(v))
        elif isinstance(v, (list, tuple)):
            for w in v:
                walk(w)
        elif isinstance(v, dict):
            for w in v.values():
                walk(w)

    for t in things:
        walk(t)
    return m


def seg_plain(seg):
    """library segment -> plain description used in details"""
    k = kind_of(seg)
    out = {"k": k, "s": xy(seg.start), "e": xy(seg.end)}
    if k == "Q":
        out["c"] = xy(seg.control)
    elif k == "C":
        out["c1"] = xy(seg.control1)
        out["c2"] = xy(seg.control2)
    elif k == "A":
        out["center"] = xy(seg.center)
        out["sweep"] = seg.sweep
    return out
