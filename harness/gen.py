"""
Shared generators.

Hypothesis 6.168 costs 50-100 us per primitive draw, which makes grammar-directed generation with hundreds of
draws per case 20-30 ms per case.  So every case is generated from ONE Hypothesis draw - a fixed-size byte
string - decoded by a data provider (the "arbitrary layer" of fuzzing practice): about 1 ms per case, every
random choice still belongs to Hypothesis (seeded, replayable, shrinkable: the shrinker lowers bytes, and
every decoder below maps byte 0 to its simplest choice), and the same decoders serve the atheris targets.

Everything produced is plain data (numbers, strings, lists, dicts).
"""
import math

from hypothesis import strategies as st


class Data(object):
    __slots__ = ("b", "i", "n")

    def __init__(self, b):
        self.b = b
        self.i = 0
        self.n = len(b)

    def byte(self):
        i = self.i
        if i < self.n:
            self.i = i + 1
            return self.b[i]
        return 0

    def below(self, n):
        """integer in 0..n-1 (0 is the simplest choice)"""
        if n <= 1:
            return 0
        if n <= 256:
            return self.byte() % n
        if n <= 65536:
            return ((self.byte() << 8) | self.byte()) % n
        return ((self.byte() << 24) | (self.byte() << 16) | (self.byte() << 8) | self.byte()) % n

    def int(self, lo, hi):
        return lo + self.below(hi - lo + 1)

    def choice(self, seq):
        return seq[self.below(len(seq))]

    def chance(self, k, n=8):
        """True with probability about k/n; byte 0 gives False"""
        return (self.byte() % n) >= n - k

    def bool(self):
        return bool(self.byte() & 1)

    def unit(self):
        """float in [0, 1)"""
        return ((self.byte() << 16) | (self.byte() << 8) | self.byte()) / 16777216.0

    def uniform(self, lo, hi):
        return lo + (hi - lo) * self.unit()

    def exhausted(self):
        return self.i >= self.n


def cases(decoder, nbytes=256):
    """Hypothesis strategy: one fixed-size binary draw decoded into a plain-data case."""
    return st.binary(min_size=nbytes, max_size=nbytes).map(lambda b: decoder(Data(b)))


def r6(v):
    return float("%.6g" % v)


# ----------------------------------------------------------------------------------------------------------
# coordinates: exactly 0, "nice" values where branch predicates flip, or log-uniform magnitude 1e-3 .. 1e5

NICE = [0.0, 1.0, 2.0, -1.0, 3.0, 4.0, 5.0, -2.0, -5.0, 10.0, -10.0, 0.5, -0.5, 0.25, 0.125, 1.5, 2.5, 7.0, 100.0, -100.0, 50.0, 20.0, 6.0, 8.0]


def loguniform(d, lo=-3.0, hi=5.0, signed=True):
    m = r6(10.0 ** d.uniform(lo, hi))
    if d.chance(1, 8):
        # mostly six significant digits (readable cases); one value in eight carries all the digits of a double, so that
        # whatever silently keeps only six, nine or twelve digits of a number is seen
        m = m * (1.0 + d.int(1, 9) * 1.0123456789e-7)
    if signed and d.bool():
        m = -m
    return m


def coord(d, lo=-3.0, hi=5.0):
    k = d.below(8)
    if k < 4:
        return d.choice(NICE)
    if k == 4:
        return 0.0
    return loguniform(d, lo, hi)


def small_coord(d):
    return coord(d, -2.0, 2.5)


def point(d, c=coord):
    return [c(d), c(d)]


T_FIXED = [0.0, 1.0, 0.5, 0.25, 0.75, 1.0 / 3.0, 0.1, 0.9]


def unit_t(d):
    if d.bool():
        return d.choice(T_FIXED)
    return d.unit()


# ----------------------------------------------------------------------------------------------------------
# number spellings (text)

ZEROS = ["0", "0.0", ".0", "00", "0e0", "-0"]
MANTS = ["1", "5", "25", "1.5", ".5", "12.25", "3", "0.125"]


def number_token(d, nonneg=False):
    """A number spelled as text; the denoted value is float(token)."""
    kind = d.below(8)
    if kind <= 2:
        body = str(d.below(d.choice([10, 100, 1000, 100000])))
    elif kind <= 4:
        nd = d.choice([1, 2, 3, 6, 9])
        frac = "".join(str(d.below(10)) for _ in range(nd))
        body = "%d.%s" % (d.below(1000), frac)
    elif kind == 5:
        nd = d.choice([1, 2, 4])
        body = "." + "".join(str(d.below(10)) for _ in range(nd))
    elif kind == 6:
        e = d.int(-3, 4)
        esign = "-" if e < 0 else d.choice(["", "", "+"])
        body = "%s%s%s%d" % (d.choice(MANTS), d.choice("eE"), esign, abs(e))
    else:
        tok = d.choice(ZEROS)
        if nonneg:
            tok = tok.lstrip("-")
        return tok
    if nonneg:
        sign = d.choice(["", "", "", "+"])
    else:
        sign = d.choice(["", "", "-", "-", "+", ""])
    return sign + body


SEPS = [" ", ",", " ", ", ", " , ", "\n", "\t", "  ", " ,", "\r\n", " ", ",", "\x0c", " \x0c", "\r", ",\t"]  # every wsp of the grammar: #x9 #x20 #xA #xC #xD


def can_abut(prev_tok, next_tok):
    """May next_tok follow prev_tok with no separator and still be lexed as two numbers?"""
    if next_tok[0] in "+-":
        return True
    if next_tok[0] == ".":
        return ("." in prev_tok) or ("e" in prev_tok) or ("E" in prev_tok)
    return False


def join_numbers(d, toks, flags=()):
    """Render number tokens with generated separators; indices in `flags` are arc flags (single characters)."""
    out = []
    for i, t in enumerate(toks):
        if i > 0:
            prev = toks[i - 1]
            abut_ok = ((i - 1) in flags) or (i not in flags and can_abut(prev, t))
            k = d.byte()
            if abut_ok and k % 2 == 1:
                sep = ""
            else:
                sep = SEPS[(k >> 1) % len(SEPS)]
            out.append(sep)
        out.append(t)
    return "".join(out)


ARGC = {"M": 2, "L": 2, "H": 1, "V": 1, "C": 6, "S": 4, "Q": 4, "T": 2, "A": 7}
LETTERS = "LlMmZzHhVvCcSsQqTtAa"


def huge_token(d):
    """a radius many orders of magnitude above the coordinates: a very shallow piece of a very large ellipse"""
    return "%s%s%d" % (d.choice(["1", "2.5", "4", "7.3", "9.99"]), d.choice("eE"), d.int(6, 12))


ARC_NEGATIVE_RADII = False  # set by a check whose reference takes absolute values (SVG 2 grammar: a radius is any number)


def _radius_token(d):
    t = number_token(d, nonneg=True)
    if ARC_NEGATIVE_RADII and d.chance(1, 5) and not t.startswith(("+", "-")):
        return "-" + t
    return t


def arg_group(d, up):
    if up == "A" and ARC_NEGATIVE_RADII and not d.chance(1, 10):
        return [
            _radius_token(d), _radius_token(d), number_token(d),
            d.choice("01"), d.choice("01"), number_token(d), number_token(d),
        ], (3, 4)
    if up == "A":
        if d.chance(1, 10):
            return [
                huge_token(d), huge_token(d) if d.bool() else number_token(d, nonneg=True), number_token(d),
                d.choice("01"), d.choice("01"), number_token(d), number_token(d),
            ], (3, 4)
        return [
            number_token(d, nonneg=True), number_token(d, nonneg=True), number_token(d),
            d.choice("01"), d.choice("01"), number_token(d), number_token(d),
        ], (3, 4)
    return [number_token(d) for _ in range(ARGC[up])], ()


def path_command(d, letters=LETTERS, allow_zfill=True):
    """-> (letter, text of the arguments incl. a possible segment-completing z)"""
    ch = d.choice(letters)
    up = ch.upper()
    if up == "Z":
        return ch, ""
    ngroups = d.choice([1, 1, 1, 2, 1, 3, 1, 2])
    toks = []
    flags = []
    for g in range(ngroups):
        t, f = arg_group(d, up)
        flags.extend(len(toks) + k for k in f)
        toks.extend(t)
    ztail = ""
    if allow_zfill and up in "LCSQTA" and d.chance(1, 8):
        # the last coordinate pair(s) of the last group replaced by z
        if up == "A":
            toks = toks[:-2]
        elif up in "LT":
            if ngroups == 1:
                toks = []
            # (a complete group followed by z is an ordinary close)
        else:
            pairs_in_group = ARGC[up] // 2
            drop = d.int(1, pairs_in_group)
            toks = toks[: len(toks) - 2 * drop]
        ztail = d.choice(["z", " z", "Z", " Z"])
    body = join_numbers(d, toks, tuple(flags))
    return ch, body + ztail


def path_text(d, min_cmds=1, max_cmds=10, letters=LETTERS, allow_zfill=True):
    """Grammar-conforming path data: a moveto followed by commands, with generated spellings/separators.
    Returns (text, list of command start offsets)."""
    n = d.int(min_cmds, max_cmds)
    offsets = []
    text = d.choice(["", "", " ", "\n"])
    cmds = [path_command(d, letters="Mm", allow_zfill=False)]
    for _ in range(n):
        cmds.append(path_command(d, letters=letters, allow_zfill=allow_zfill))
    for i, (ch, body) in enumerate(cmds):
        if i > 0:
            text += d.choice(["", " ", " ", "\n", "", " ", "\x0c", "\t", "\r"])
        offsets.append(len(text))
        text += ch
        if body:
            if body[0] not in "zZ ":
                text += d.choice(["", "", " "])
            text += body
    text += d.choice(["", "", " "])
    return text, offsets


# ----------------------------------------------------------------------------------------------------------
# matrices (6-tuples, SVG order a b c d e f), constructed by class


def _rot(a):
    c, s = math.cos(a), math.sin(a)
    return (c, s, -s, c, 0.0, 0.0)


def mat_mul(m, n):
    """first m then n (the library's p*m*n) in SVG a..f form"""
    a, b, c, d, e, f = m
    a2, b2, c2, d2, e2, f2 = n
    return (
        a * a2 + b * c2,
        a * b2 + b * d2,
        c * a2 + d * c2,
        c * b2 + d * d2,
        e * a2 + f * c2 + e2,
        e * b2 + f * d2 + f2,
    )


def mat_apply(m, p):
    a, b, c, d, e, f = m
    return (a * p[0] + c * p[1] + e, b * p[0] + d * p[1] + f)


def mat_det(m):
    return m[0] * m[3] - m[1] * m[2]


def mat_inv(m):
    a, b, c, d, e, f = m
    det = a * d - b * c
    ia, ib, ic, id_ = d / det, -b / det, -c / det, a / det
    return (ia, ib, ic, id_, -(e * ia + f * ic), -(e * ib + f * id_))


def mat_norm(m):
    return max(abs(m[0]), abs(m[1]), abs(m[2]), abs(m[3]))


IDENTITY = (1.0, 0.0, 0.0, 1.0, 0.0, 0.0)
ANGLES_DEG = [0.0, 90.0, 180.0, 270.0, -90.0, 45.0, 30.0, -30.0, 60.0, 120.0, 135.0, 20.0, 1.0, 359.0, 33.3]
SCALES = [1.0, 2.0, 0.5, 3.0, 10.0, 0.1]
MATRIX_CLASSES = ["identity", "translate", "similarity", "reflection", "antidiagonal", "aniso", "aniso-rot", "shear", "general", "general-neg", "small-exact"]


def angle_deg(d):
    if d.bool():
        return d.choice(ANGLES_DEG)
    return r6(d.uniform(-360.0, 360.0))


def _scale(d):
    if d.bool():
        return d.choice(SCALES)
    return loguniform(d, -2.0, 2.0, signed=False)


def matrix(d, classes=None, translate=True):
    """-> {"cls": name, "m": [a,b,c,d,e,f]}; condition number <= 400, |scale| in 1e-2..1e2"""
    cls = d.choice(classes or MATRIX_CLASSES)
    if cls in ("identity", "translate"):
        m = IDENTITY
    elif cls == "similarity":
        s = _scale(d)
        m = tuple(s * v for v in _rot(math.radians(angle_deg(d))))
    elif cls == "reflection":
        m = d.choice([(-1.0, 0.0, 0.0, 1.0, 0.0, 0.0), (1.0, 0.0, 0.0, -1.0, 0.0, 0.0)])
        m = mat_mul(m, _rot(math.radians(angle_deg(d))))
    elif cls == "antidiagonal":
        m = d.choice([(0.0, 1.0, 1.0, 0.0, 0.0, 0.0), (0.0, -1.0, -1.0, 0.0, 0.0, 0.0)])
        s = _scale(d)
        m = tuple(s * v for v in m)
    elif cls == "aniso":
        s1 = _scale(d)
        k = d.choice([2.0, 0.5, 3.0, 10.0]) if d.bool() else r6(d.uniform(1.05, 400.0))
        s2 = s1 / k if d.bool() else s1 * k
        s2 = min(max(s2, 1e-2), 1e2)
        m = (s1, 0.0, 0.0, s2, 0.0, 0.0)
    elif cls == "aniso-rot":
        s1 = _scale(d)
        k = d.choice([2.0, 0.5, 3.0]) if d.bool() else r6(d.uniform(1.05, 400.0))
        s2 = min(max(s1 / k, 1e-2), 1e2)
        m = mat_mul(mat_mul(_rot(math.radians(angle_deg(d))), (s1, 0, 0, s2, 0, 0)), _rot(math.radians(angle_deg(d))))
    elif cls == "small-exact":
        # entries that are small integers or dyadic fractions, in patterns with exact coincidences between them: symmetric
        # (a b b a), mirrored symmetric (a b -b -a), equal diagonal with unequal off-diagonal, arbitrary small entries
        vals = [1.0, 2.0, 0.5, 3.0, -1.0, -2.0, 0.25, 1.5, -0.5]
        a, b = d.choice(vals), d.choice(vals)
        pat = d.below(5)
        if pat == 0:
            m = (a, b, b, a)
        elif pat == 1:
            m = (a, b, -b, -a)
        elif pat == 2:
            m = (a, b, d.choice(vals), a)
        elif pat == 3:
            m = (a, b, -b, a * 2.0)
        else:
            m = (a, b, d.choice(vals), d.choice(vals))
        if abs(m[0] * m[3] - m[1] * m[2]) < 0.05:  # singular or nearly so: break the coincidence that makes it so
            m = (m[0] + 2.0, m[1], m[2], m[3] + 3.0) if abs((m[0] + 2.0) * (m[3] + 3.0) - m[1] * m[2]) >= 0.05 else (2.0, 1.0, 1.0, 2.0)
        m = m + (0.0, 0.0)
    elif cls == "shear":
        k = d.choice([1.0, 0.5, -1.0, 2.0]) if d.bool() else r6(d.uniform(-10.0, 10.0))
        m = (1.0, 0.0, k, 1.0, 0.0, 0.0) if d.bool() else (1.0, k, 0.0, 1.0, 0.0, 0.0)
    else:
        s1 = _scale(d)
        k = r6(d.uniform(1.0, 400.0))
        s2 = min(max(s1 / k, 1e-2), 1e2)
        if cls == "general-neg":
            s2 = -s2
        m = mat_mul(mat_mul(_rot(math.radians(angle_deg(d))), (s1, 0, 0, s2, 0, 0)), _rot(math.radians(angle_deg(d))))
    m = list(m)
    if translate and cls != "identity" and (cls == "translate" or d.bool()):
        m[4] = coord(d, -3.0, 3.0)
        m[5] = coord(d, -3.0, 3.0)
    return {"cls": cls, "m": [float(v) for v in m]}


def matrix_is_similarity(m, tol=1e-9):
    a, b, c, dd = m[0], m[1], m[2], m[3]
    n = max(abs(a), abs(b), abs(c), abs(dd), 1e-300)
    return abs(a * c + b * dd) <= tol * n * n and abs((a * a + b * b) - (c * c + dd * dd)) <= tol * n * n


# ----------------------------------------------------------------------------------------------------------
# segments as plain data:  ["L", s, e]  ["Q", s, c, e]  ["C", s, c1, c2, e]
#                          ["A", s, rx, ry, rot, fa, fs, e]   ["M", e]  ["Z"]

BEZIER_KINDS = ["general", "general", "general", "zero", "coincident", "collinear", "doubleback", "cusp"]


def bezier_points(d, n, c=coord):
    """n control points with degenerate sub-classes -> (class, points)"""
    kind = d.choice(BEZIER_KINDS)
    p0 = point(d, c)
    if kind == "zero":
        return kind, [list(p0) for _ in range(n)]
    p_end = point(d, c)
    if kind == "general" or n == 2:
        return "general", [p0] + [point(d, c) for _ in range(n - 2)] + [p_end]
    if kind == "coincident":
        mids = [list(p0) if d.bool() else list(p_end) for _ in range(n - 2)]
        return kind, [p0] + mids + [p_end]
    if kind in ("collinear", "doubleback"):
        tsrc = [0.25, 0.5, 0.75, 1.0 / 3.0, 2.0 / 3.0] if kind == "collinear" else [-0.5, 1.5, 2.0, -1.0]
        ts = [d.choice(tsrc) for _ in range(n - 2)]
        mids = [[p0[0] + t * (p_end[0] - p0[0]), p0[1] + t * (p_end[1] - p0[1])] for t in ts]
        return kind, [p0] + mids + [p_end]
    if n == 4:
        if d.bool():
            return kind, [p0, list(p_end), list(p0), p_end]
        return kind, [p0, [p_end[0], p0[1]], [p0[0], p0[1]], [p0[0], p_end[1]]]
    return "general", [p0, point(d, c), p_end]


ROTATIONS = [0.0, 90.0, -90.0, 180.0, 270.0, 360.0, 45.0, 30.0, -30.0, 400.0, -400.0, 720.0, -720.0, 33.3, 1.0, 0.0]
ARC_KINDS = ["ample", "ample", "scaled-up", "near-fit", "exact-fit", "general", "general", "ample"]
NEAR_FIT = [1.0 - 1e-9, 1.0 + 1e-9, 1.0 - 1e-6, 1.0 + 1e-6, 1.000001, 0.999999]


def arc_endpoint(d, c=coord, allow_degenerate=True):
    """endpoint-form arc -> (class, ["A", s, rx, ry, rot, fa, fs, e])"""
    s = point(d, c)
    kind = d.choice(ARC_KINDS)
    if allow_degenerate and d.chance(1, 16):
        kind = d.choice(["coincident", "zero-radius", "negative-radius"])
    e = point(d, c)
    if kind == "coincident":
        e = list(s)
    elif e == s:
        e = [s[0] + 1.0, s[1] + 2.0]
    chord = math.hypot(e[0] - s[0], e[1] - s[1])
    half = max(chord / 2.0, 1e-6)
    if kind == "scaled-up":
        lam = d.uniform(1e-3, 0.999)
    elif kind == "near-fit":
        lam = d.choice(NEAR_FIT)
    elif kind == "exact-fit":
        lam = 1.0
    elif kind == "ample":
        lam = d.uniform(1.05, 50.0)
    else:
        lam = 10.0 ** d.uniform(-3.0, 3.0)
    rx = float("%.9g" % (half * lam))
    if d.bool():
        ry = rx
    elif kind == "general":
        ry = float("%.9g" % (half * 10.0 ** d.uniform(-3.0, 3.0)))
    else:
        ry = float("%.9g" % (half * lam * d.uniform(0.2, 5.0)))
    rot = d.choice(ROTATIONS) if d.bool() else r6(d.uniform(-360.0, 360.0))
    if kind == "zero-radius":
        if d.bool():
            rx = 0.0
        else:
            ry = 0.0
    if kind == "negative-radius":
        which = d.int(1, 3)
        if which & 1:
            rx = -rx
        if which & 2:
            ry = -ry
    fa = d.below(2)
    fs = d.below(2)
    return kind, ["A", s, rx, ry, rot, fa, fs, e]


def segment(d, kinds="LQCA", c=coord, arc_degenerate=False):
    k = d.choice(kinds)
    if k == "L":
        kind, pts = bezier_points(d, 2, c)
        return "L:" + kind, ["L"] + pts
    if k == "Q":
        kind, pts = bezier_points(d, 3, c)
        return "Q:" + kind, ["Q"] + pts
    if k == "C":
        kind, pts = bezier_points(d, 4, c)
        return "C:" + kind, ["C"] + pts
    kind, a = arc_endpoint(d, c, allow_degenerate=arc_degenerate)
    return "A:" + kind, a


def reanchor(seg, cur):
    """translate a generated segment so that it starts at cur"""
    dx, dy = cur[0] - seg[1][0], cur[1] - seg[1][1]
    if seg[0] == "A":
        out = ["A", list(cur), seg[2], seg[3], seg[4], seg[5], seg[6], [seg[7][0] + dx, seg[7][1] + dy]]
        return out
    out = [seg[0]] + [[p[0] + dx, p[1] + dy] for p in seg[1:]]
    out[1] = list(cur)
    return out


def path_segments(d, max_subpaths=3, max_segs=4, kinds="LQCA", c=coord, move_led=True, arc_degenerate=False):
    """A connected path as plain data: list of segments; with move_led=False a subpath after a close may start
    without its own move and the path may begin with a drawn segment."""
    out = []
    cur = None
    nsub = d.int(1, max_subpaths)
    for si in range(nsub):
        if cur is None:
            need_move = move_led or not d.chance(1, 4)
        else:
            need_move = move_led or out[-1][0] != "Z" or d.bool()
        if need_move:
            cur = point(d, c)
            out.append(["M", list(cur)])
        elif cur is None:
            cur = point(d, c)
        start = list(cur)
        nseg = d.int(1, max_segs) if (si == 0 or not need_move) else d.int(0, max_segs)
        for _ in range(nseg):
            lab, seg = segment(d, kinds, c, arc_degenerate=arc_degenerate)
            seg = reanchor(seg, cur)
            out.append(seg)
            cur = list(seg[-1])
        closing = d.choice(["open", "close", "close0", "open"])
        if closing != "open" and nseg > 0:
            if closing == "close0" and cur != start:
                out.append(["L", list(cur), list(start)])
            out.append(["Z"])
            cur = list(start)
    return out
