"""
SVG document generator (plain-data AST) and XML serialiser, shared by C03, C10, C14 and C20.

node = {"tag": str, "id": str, "attrs": {name: text}, "children": [node...], "cls": class name or None}
doc  = {"root": node, "css": [{"sel": selector, "decl": {prop: value}}...], "config": {...}}

Vocabulary: svg (root and nested), g, defs, use, rect, circle, ellipse, line, polyline, polygon, path.
Every element has a unique id.  Lengths are generated with the units px/pt/pc/in and as percentages (never for r);
shapes always carry their required size attributes and never negative sizes (the specification says "not rendered",
the library defaults them - neither is claimed by the properties).
"""
from xml.sax.saxutils import quoteattr

from . import gen

SHAPES = ["rect", "circle", "ellipse", "line", "polyline", "polygon", "path"]
UNITS = ["", "", "", "px", "pt", "pc", "in"]
TRANSFORMS = [
    "translate(10,20)", "translate(-5.5,3)", "scale(2)", "scale(0.5,2)", "rotate(30)", "rotate(90)", "rotate(45,10,10)", "skewX(20)",
    "matrix(1,0.5,-0.5,1,3,4)", "scale(-1,1)", "matrix(0,1,1,0,0,0)", "translate(4pt,1pc)", "scale(1.5) translate(2,2)", "rotate(-15) scale(1,3)",
]
PALETTE = ["red", "#00ff00", "rgb(0,0,255)", "#ff0", "black", "white", "#12345680", "rgb(50%,0%,50%)", "teal", "#808080"]


def num(d, lo=0.0, hi=100.0):
    k = d.below(4)
    if k == 0:
        return float(d.int(int(lo), int(hi)))
    if k == 1:
        return gen.r6(d.uniform(lo, hi))
    return float(d.choice([0, 1, 2, 5, 10, 20, 25, 40, 50, 100]))


def length(d, lo=0.0, hi=100.0, percent=True, units=True, inch=True):
    """-> text of a length"""
    v = num(d, lo, hi)
    if lo > 0 and v < lo:
        v = float(lo)
    if percent and d.chance(1, 6):
        return "%s%%" % fmtn(float(d.choice([10, 25, 50, 75, 100, 12.5])))
    if units and d.chance(2, 8):
        u = d.choice(UNITS)
        if u == "in" and not inch:
            u = "pt"
        if u == "in":
            v = gen.r6(v / 50.0)
        elif u == "pc":
            v = gen.r6(v / 8.0)
        return fmtn(v) + u
    return fmtn(v)


def fmtn(v):
    if float(v).is_integer():
        return str(int(v))
    return repr(float(v))


def shape_attrs(d, tag, percent=True, units=True):
    a = {}
    L = lambda lo=0.0, hi=100.0: length(d, lo, hi, percent, units)
    if tag == "rect":
        if d.chance(6, 8):
            a["x"] = L(-50, 100)
        if d.chance(6, 8):
            a["y"] = L(-50, 100)
        a["width"] = L(1, 100)
        a["height"] = L(1, 100)
        k = d.below(6)
        R = lambda: length(d, 1, 30, False, units)  # (percentage radii: viewport- or box-relative is disputed; not generated)
        if k == 0:
            a["rx"] = R()
        elif k == 1:
            a["ry"] = R()
        elif k == 2:
            a["rx"] = R()
            a["ry"] = R()
    elif tag == "circle":
        if d.chance(6, 8):
            a["cx"] = L(-50, 100)
        if d.chance(6, 8):
            a["cy"] = L(-50, 100)
        a["r"] = length(d, 1, 60, percent=False, units=units)
    elif tag == "ellipse":
        if d.chance(6, 8):
            a["cx"] = L(-50, 100)
        if d.chance(6, 8):
            a["cy"] = L(-50, 100)
        a["rx"] = L(1, 60)
        a["ry"] = L(1, 60)
    elif tag == "line":
        for k in ("x1", "y1", "x2", "y2"):
            if d.chance(7, 8):
                a[k] = L(-50, 100)
        if not any(k in a for k in ("x2", "y2")):
            a["x2"] = "30"
    elif tag in ("polyline", "polygon"):
        n = d.int(2, 5)
        a["points"] = " ".join("%s,%s" % (fmtn(num(d, -50, 100)), fmtn(num(d, -50, 100))) for _ in range(n))
    elif d.chance(1, 4):
        # compound path data: several subpaths, relative and absolute commands, closed or not, drawing on after a close
        n_ = lambda lo=-30, hi=40: fmtn(num(d, lo, hi))
        parts = ["%s%s,%s" % (d.choice("Mm"), n_(-20, 80), n_(-20, 80))]
        for i in range(d.int(2, 4)):
            if i:
                parts.append("%s%s,%s" % (d.choice("mmM"), n_(), n_()))
            for _ in range(d.int(1, 3)):
                k = d.choice(["l", "l", "L", "h", "v", "H", "V", "q", "c", "a", "t", "s"])
                if k in "lLt":
                    parts.append("%s%s,%s" % (k, n_(), n_()))
                elif k in "hvHV":
                    parts.append("%s%s" % (k, n_()))
                elif k in "qs":
                    parts.append("%s%s,%s %s,%s" % (k, n_(), n_(), n_(), n_()))
                elif k == "c":
                    parts.append("c%s,%s %s,%s %s,%s" % (n_(), n_(), n_(), n_(), n_(), n_()))
                else:
                    parts.append("a%s,%s %s %d,%d %s,%s" % (fmtn(num(d, 5, 60)), fmtn(num(d, 5, 60)), fmtn(float(d.choice([0, 30, 90, -45]))), d.below(2), d.below(2), n_(5, 40), n_(5, 40)))
            if d.chance(2, 3):
                parts.append(d.choice("zZ"))
                if d.chance(1, 4):
                    parts.append("l%s,%s" % (n_(), n_()))
        a["d"] = " ".join(parts)
    else:
        x0, y0 = num(d, -20, 80), num(d, -20, 80)
        parts = ["M%s,%s" % (fmtn(x0), fmtn(y0))]
        for _ in range(d.int(1, 4)):
            k = d.choice(["L", "l", "H", "v", "Q", "C", "A", "Z"])
            n_ = lambda: fmtn(num(d, -40, 90))
            if k in "Ll":
                parts.append("%s%s,%s" % (k, n_(), n_()))
            elif k in "Hv":
                parts.append("%s%s" % (k, n_()))
            elif k == "Q":
                parts.append("Q%s,%s %s,%s" % (n_(), n_(), n_(), n_()))
            elif k == "C":
                parts.append("C%s,%s %s,%s %s,%s" % (n_(), n_(), n_(), n_(), n_(), n_()))
            elif k == "A":
                parts.append("A%s,%s %s %d,%d %s,%s" % (fmtn(num(d, 5, 60)), fmtn(num(d, 5, 60)), fmtn(float(d.choice([0, 30, 90, -45]))), d.below(2), d.below(2), n_(), n_()))
            else:
                parts.append("Z")
                break
        a["d"] = " ".join(parts)
    return a


class Builder(object):
    def __init__(self, d, opts):
        self.d = d
        self.o = opts
        self.n = 0
        self.ids = []       # ids that may be referenced by a use (shapes and groups)
        self.all_nodes = []

    def new_id(self):
        self.n += 1
        return ("e%d", "E%d", "Layer_%d")[self.n % 3] % self.n  # (names are case-sensitive)

    def node(self, tag, attrs=None, children=None):
        n = {"tag": tag, "id": self.new_id(), "attrs": attrs or {}, "children": children or [], "cls": None}
        self.all_nodes.append(n)
        return n

    def maybe_transform(self, node, p=3):
        d = self.d
        if d.chance(p, 8):
            node["attrs"]["transform"] = d.choice(TRANSFORMS)

    def shape(self, referable=True):
        d = self.d
        tag = d.choice(SHAPES)
        n = self.node(tag, shape_attrs(d, tag, percent=self.o.get("percent", True), units=self.o.get("units", True)))
        self.maybe_transform(n, 2)
        if self.o.get("display_none", True) and d.chance(1, 12):
            n["attrs"]["display"] = "none"
            referable = False
        if referable:
            self.ids.append(n["id"])
        return n

    def container(self, depth, in_defs=False, hidden=False):
        """children of a container"""
        d = self.d
        out = []
        for _ in range(d.int(1, 3 if depth < 2 else 2)):
            if len(self.all_nodes) >= self.o.get("max_elements", 22):
                break
            k = d.below(10)
            if k <= 4 or depth >= self.o.get("max_depth", 4):
                out.append(self.shape(referable=not hidden))
            elif k <= 6:
                g = self.node("g")
                self.maybe_transform(g, 4)
                hide = (not in_defs) and self.o.get("display_none", True) and d.chance(1, 8)
                if hide:
                    g["attrs"]["display"] = "none"
                g["children"] = self.container(depth + 1, in_defs, hidden or hide)
                if not (hidden or hide):
                    self.ids.append(g["id"])
                out.append(g)
            elif k == 7 and self.o.get("nested_svg", True) and not in_defs:
                s = self.node("svg")
                a = s["attrs"]
                if d.chance(6, 8):
                    a["x"] = length(d, -20, 60, True, False)
                    a["y"] = length(d, -20, 60, True, False)
                a["width"] = length(d, 10, 100, True, False)
                a["height"] = length(d, 10, 100, True, False)
                if d.chance(6, 8):
                    a["viewBox"] = "%s %s %s %s" % (fmtn(num(d, -20, 20)), fmtn(num(d, -20, 20)), fmtn(max(num(d, 10, 200), 0.0 if d.chance(1, 16) else 1.0)), fmtn(max(num(d, 10, 200), 1.0)))
                    if d.chance(3, 8):
                        a["preserveAspectRatio"] = d.choice(["none", "xMinYMin", "xMaxYMax slice", "xMidYMid meet", "xMinYMax", "xMidYMin slice"])
                aligned_viewbox(d, a)
                s["children"] = self.container(depth + 1, in_defs, hidden)
                out.append(s)
            elif k == 8 and self.o.get("use", True):
                u = self.node("use")
                if d.chance(5, 8):
                    # (inch-family offsets become an inch-family translation: known finding KF-TRANSFORM-MIXED-UNITS)
                    u["attrs"]["x"] = length(d, -30, 60, False, self.o.get("units", True), inch=False)
                if d.chance(5, 8):
                    u["attrs"]["y"] = length(d, -30, 60, False, self.o.get("units", True), inch=False)
                self.maybe_transform(u, 3)
                u["ref"] = d.below(1000)  # resolved after the tree is complete
                out.append(u)
            else:
                out.append(self.shape(referable=not hidden))
        return out


ALIGNS = ["xMinYMin", "xMidYMin", "xMaxYMin", "xMinYMid", "xMidYMid", "xMaxYMid", "xMinYMax", "xMidYMax", "xMaxYMax"]


def aligned_viewbox(d, a):
    """sometimes replace the viewBox by one derived from the element's own size (simple ratios per axis, origin
    mostly 0, any alignment): scale factors of exactly 1 and viewport transforms that are exactly the identity while
    the size differs from the viewBox size occur this way, which independent random numbers never produce"""
    try:
        w, h = float(a.get("width", "x")), float(a.get("height", "x"))
    except ValueError:
        return
    if w <= 0 or h <= 0 or not d.chance(1, 3):
        return
    fw, fh = d.choice([1.0, 1.0, 1.0, 2.0, 0.5]), d.choice([1.0, 1.0, 2.0, 0.5, 3.0, 0.25])
    ox, oy = (0.0, 0.0) if d.chance(5, 8) else (float(d.int(-5, 5)), float(d.int(-5, 5)))
    a["viewBox"] = "%s %s %s %s" % (fmtn(ox), fmtn(oy), fmtn(w * fw), fmtn(h * fh))
    k = d.below(4)
    if k == 0:
        a.pop("preserveAspectRatio", None)
    else:
        a["preserveAspectRatio"] = d.choice(ALIGNS + ["xMinYMin", "xMinYMin", "xMidYMin", "xMinYMid"]) + ("" if k == 1 else (" meet" if k == 2 else " slice"))


def build_doc(d, opts=None):
    opts = dict(opts or {})
    b = Builder(d, opts)
    root = b.node("svg")
    a = root["attrs"]
    cfg = {"reify": True, "ppi": d.choice([96, 96, 72, 100, 254]), "width": None, "height": None, "transform": None}
    k = d.below(6)
    if k <= 2:
        a["width"] = length(d, 50, 500, percent=(k == 2), units=opts.get("units", True))
        a["height"] = length(d, 50, 500, percent=(k == 2), units=opts.get("units", True))
    if d.chance(5, 8):
        a["viewBox"] = "%s %s %s %s" % (fmtn(num(d, -20, 20)), fmtn(num(d, -20, 20)), fmtn(max(num(d, 50, 400), 1.0)), fmtn(max(num(d, 50, 400), 1.0)))
        if d.chance(3, 8):
            a["preserveAspectRatio"] = d.choice(["none", "xMinYMin", "xMaxYMax slice", "xMidYMid meet", "xMaxYMid", "xMidYMax slice"])
    aligned_viewbox(d, a)
    b.maybe_transform(root, 1)
    if opts.get("caller", True):
        kk = d.below(6)
        if kk == 0:
            cfg["width"], cfg["height"] = max(num(d, 100, 800), 1.0), max(num(d, 100, 800), 1.0)
        elif kk == 1:
            cfg["width"], cfg["height"] = "%sin" % fmtn(max(num(d, 1, 8), 1.0)), "%spt" % fmtn(max(num(d, 100, 600), 1.0))
        elif kk == 2 and "viewBox" in a:
            # the caller supplies one dimension only: the other one comes from the viewBox
            if d.bool():
                cfg["width"] = max(num(d, 100, 800), 1.0) if d.bool() else "%sin" % fmtn(max(num(d, 1, 8), 1.0))
            else:
                cfg["height"] = max(num(d, 100, 800), 1.0) if d.bool() else "%spt" % fmtn(max(num(d, 100, 600), 1.0))
        if d.chance(1, 6):
            cfg["transform"] = d.choice(TRANSFORMS[:10])
    children = []
    if opts.get("use", True) and d.chance(5, 8):
        defs = b.node("defs")
        defs["children"] = b.container(2, in_defs=True)
        children.append(defs)
    children.extend(b.container(1))
    if opts.get("use", True) and d.chance(3, 8) and b.ids:
        # a use whose target is defined later in the document
        u = b.node("use")
        u["attrs"]["x"] = fmtn(num(d, -20, 40))
        u["ref"] = d.below(1000)
        children.insert(d.below(len(children) + 1), u)
        late = b.shape()
        children.append(late)
    root["children"] = children
    # the size percentages resolve against must be defined by the document or the caller, not by a library default
    pct_size = "%" in a.get("width", "") or "%" in a.get("height", "")
    if cfg["width"] is None and cfg["height"] is None and (pct_size or ("viewBox" not in a and "width" not in a)):
        cfg["width"], cfg["height"] = max(num(d, 100, 800), 1.0), max(num(d, 100, 800), 1.0)
    resolve_uses(root, b.ids)
    return {"root": root, "css": [], "config": cfg}


def walk(node, parents=()):
    yield node, parents
    for c in node["children"]:
        for x in walk(c, parents + (node,)):
            yield x


def resolve_uses(root, ids):
    """give every use a target; never its own ancestor or itself (cycles are C10's faults), never a subtree that
    contains the use"""
    index = {n["id"]: (n, parents) for n, parents in walk(root)}

    def contains(node, target_id):
        return any(n["id"] == target_id for n, _ in walk(node))

    def reaches(node, target_id, seen=()):
        """does rendering `node` reach `target_id` (through children or use references)?"""
        for n, _ in walk(node):
            if n["id"] == target_id:
                return True
            if n["tag"] == "use" and "href" in n and n["href"] not in seen:
                t = index.get(n["href"])
                if t is not None and reaches(t[0], target_id, seen + (n["href"],)):
                    return True
        return False

    for n, parents in list(walk(root)):
        if n["tag"] != "use" or "ref" not in n:
            continue
        cands = []
        anc = set(p["id"] for p in parents)
        for i in ids:
            t, tparents = index[i]
            if i in anc or i == n["id"]:
                continue
            if any(p["attrs"].get("display") == "none" for p in tparents) or t["attrs"].get("display") == "none":
                continue
            if reaches(t, n["id"]):
                continue
            cands.append(i)
        if cands:
            n["href"] = cands[n["ref"] % len(cands)]
            # the reference is written as xlink:href (SVG 1.1), as href (SVG 2), or as both - then href is the one that
            # counts and xlink:href (another element, or nothing that exists) is ignored
            mode = (n["ref"] // 7) % 4
            if mode == 2:
                n["href_attr"] = "href"
            elif mode == 3:
                n["href_attr"] = "href"
                other = cands[(n["ref"] + 1) % len(cands)]
                n["href_decoy"] = other if other != n["href"] else "nothing-here"
        else:
            n["href"] = None
        del n["ref"]


def to_xml(doc, extra_head=""):
    css = doc.get("css") or []
    out = ['<svg xmlns="http://www.w3.org/2000/svg" xmlns:xlink="http://www.w3.org/1999/xlink"']
    root = doc["root"]

    def attrs_text(n):
        parts = [' id=%s' % quoteattr(n["id"])]
        if n.get("cls"):
            parts.append(' class=%s' % quoteattr(n["cls"]))
        for k, v in n["attrs"].items():
            parts.append(" %s=%s" % (k, quoteattr(str(v))))
        if n["tag"] == "use" and n.get("href"):
            if n.get("href_decoy"):
                parts.append(' xlink:href=%s' % quoteattr("#" + n["href_decoy"]))
            parts.append(' %s=%s' % (n.get("href_attr", "xlink:href"), quoteattr("#" + n["href"])))
        return "".join(parts)

    out.append(attrs_text(root) + ">")
    if doc.get("style_text"):
        out.append("<style>%s</style>" % doc["style_text"])
    out.append(extra_head)

    def emit(n):
        if n.get("text") is not None:
            out.append("<%s%s>%s</%s>" % (n["tag"], attrs_text(n), n["text"], n["tag"]))
        elif n["children"]:
            out.append("<%s%s>" % (n["tag"], attrs_text(n)))
            for c in n["children"]:
                emit(c)
            out.append("</%s>" % n["tag"])
        else:
            out.append("<%s%s/>" % (n["tag"], attrs_text(n)))

    for c in root["children"]:
        emit(c)
    out.append("</svg>")
    return "".join(out)
