"""
Reference renderer and cascade evaluator over the document AST of harness/docgen.py, written from SVG 1.1/2
(struct, coords, shapes, painting, styling) and CSS 2.1 (cascade).  Shares no code with the library.

render(doc) -> list of rendered shapes in document order:
    {"idpath": (ids from the root through use elements), "id": shape id, "tag", "segs": plain segments in the shape's
     user space, "M": accumulated matrix (6-tuple) to absolute coordinates, "paint": {...}, "vt": viewport-only matrix}
"""
import math
import re

from .. import gen
from ..ref import pathref

FUNC_RE = re.compile(r"([A-Za-z]+)\s*\(([^)]*)\)")
ARG_RE = re.compile(r"[-+]?(?:\d*\.)?\d+(?:[eE][-+]?\d+)?[a-zA-Z%]*")


def parse_transform(text, ppi):
    from ..props import c04

    funcs = [[m.group(1), ARG_RE.findall(m.group(2))] for m in FUNC_RE.finditer(text or "")]
    total, _ = c04.denote(funcs, ppi)
    return total


def length_value(text, ppi, rel):
    """text of a length -> user units; rel = reference for percentages (None if percentages are not expected)"""
    t = str(text).strip()
    if t.endswith("%"):
        return float(t[:-1]) / 100.0 * rel
    for u, f in (("px", 1.0), ("pt", 4.0 / 3.0), ("pc", 16.0), ("in", float(ppi))):
        if t.endswith(u):
            return float(t[: -len(u)]) * f
    return float(t)


def viewport_transform(e, vb, par):
    from ..props import c11
    from fractions import Fraction

    F = lambda v: Fraction(float(v))
    sx, sy, tx, ty, _, _ = c11.equivalent_transform([F(v) for v in e], [F(v) for v in vb], par)
    return (float(sx), 0.0, 0.0, float(sy), float(tx), float(ty))


def plain_from_path(d):
    r = pathref.interpret(d)
    out = []
    for s in r.segments:
        k = s["k"]
        if k == "M":
            out.append(["M", list(s["e"])])
        elif k == "L":
            out.append(["L", list(s["s"]), list(s["e"])])
        elif k == "Z":
            out.append(["Z", list(s["s"]), list(s["e"])])
        elif k == "Q":
            out.append(["Q", list(s["s"]), list(s["c"]), list(s["e"])])
        elif k == "C":
            out.append(["C", list(s["s"]), list(s["c1"]), list(s["c2"]), list(s["e"])])
        else:
            out.append(["A", list(s["s"]), abs(s["rx"]), abs(s["ry"]), s["rot"], int(s["fa"]), int(s["fs"]), list(s["e"])])
    return out, r


def shape_segments(node, ppi, vw, vh):
    from ..props import c06

    tag, a = node["tag"], node["attrs"]
    L = lambda key, rel, default=0.0: length_value(a[key], ppi, rel) if key in a else default
    if tag == "rect":
        attrs = {"x": L("x", vw), "y": L("y", vh), "width": L("width", vw), "height": L("height", vh)}
        if "rx" in a:
            attrs["rx"] = L("rx", vw)
        if "ry" in a:
            attrs["ry"] = L("ry", vh)
        return c06.reference({"kind": "rect", "attrs": attrs})
    if tag == "circle":
        return c06.reference({"kind": "circle", "attrs": {"cx": L("cx", vw), "cy": L("cy", vh), "r": L("r", None)}})
    if tag == "ellipse":
        return c06.reference({"kind": "ellipse", "attrs": {"cx": L("cx", vw), "cy": L("cy", vh), "rx": L("rx", vw), "ry": L("ry", vh)}})
    if tag == "line":
        return c06.reference({"kind": "line", "attrs": {"x1": L("x1", vw), "y1": L("y1", vh), "x2": L("x2", vw), "y2": L("y2", vh)}})
    if tag in ("polyline", "polygon"):
        nums = [float(v) for v in re.findall(r"[-+]?(?:\d*\.)?\d+(?:[eE][-+]?\d+)?", a.get("points", ""))]
        pts = [[nums[i], nums[i + 1]] for i in range(0, len(nums) - 1, 2)]
        return c06.reference({"kind": tag, "attrs": {"points": pts}})
    if tag == "path":
        segs, _ = plain_from_path(a.get("d", ""))
        return segs
    return None


# ---- cascade ------------------------------------------------------------------------------------------------------------

INHERITED = ("fill", "stroke", "stroke-width", "fill-opacity", "stroke-opacity", "color")
DEFAULTS = {"fill": "black", "stroke": "none", "stroke-width": "1", "fill-opacity": "1", "stroke-opacity": "1"}


def specificity(sel):
    if sel == "*":
        return 0
    if sel.startswith("#"):
        return 100
    if sel.startswith("."):
        return 10
    if "." in sel:
        return 11
    return 1


def matches(sel, node):
    if sel == "*":
        return True
    if sel.startswith("#"):
        return sel[1:] == node["id"]
    classes = (node.get("cls") or "").split()
    if sel.startswith("."):
        return sel[1:] in classes
    if "." in sel:
        t, c = sel.split(".", 1)
        return node["tag"] == t and c in classes
    return node["tag"] == sel


CLASS_LIST_ORDER = [False]  # set to True to evaluate the cascade the way the library orders the rules of a class list


def _library_order(sel, node, order):
    """the order in which the library applies matching rules: *, type, then per class token in attribute order
    (.c, type.c), then #id - instead of specificity, then stylesheet order"""
    classes = (node.get("cls") or "").split()
    if sel == "*":
        return (0, 0, 0, order)
    if sel.startswith("#"):
        return (3, 0, 0, order)
    if sel.startswith("."):
        return (2, classes.index(sel[1:]), 0, order)
    if "." in sel:
        return (2, classes.index(sel.split(".", 1)[1]), 1, order)
    return (1, 0, 0, order)


def specified(node, css):
    """the element's own specified values: presentation attributes < rules by (specificity, order) < inline style"""
    vals = {}
    for k in ("fill", "stroke", "stroke-width", "fill-opacity", "stroke-opacity", "color", "display", "vector-effect"):
        if k in node["attrs"]:
            vals[k] = str(node["attrs"][k])
    hits = []
    for order, rule in enumerate(css or []):
        for sel in rule["sel"] if isinstance(rule["sel"], list) else [rule["sel"]]:
            if matches(sel, node):
                key = _library_order(sel, node, order) if CLASS_LIST_ORDER[0] else (specificity(sel), order)
                hits.append((key, rule["decl"]))
    hits.sort(key=lambda h: h[0])
    for _, decl in hits:
        vals.update(decl)
    vals.update(node.get("style") or {})
    return vals


def color_rgba(text):
    """palette spellings only -> (r, g, b, a) 0..255 or None for 'none'"""
    from ..ref.colortable import KEYWORDS

    t = text.strip()
    if t == "none":
        return None
    if t.startswith("#"):
        h = t[1:]
        if len(h) in (3, 4):
            h = "".join(ch * 2 for ch in h)
        if len(h) == 6:
            h += "ff"
        return tuple(int(h[i:i + 2], 16) for i in (0, 2, 4, 6))
    m = re.match(r"rgb\(\s*([\d.]+)(%?)\s*,\s*([\d.]+)%?\s*,\s*([\d.]+)%?\s*\)", t)
    if m:
        if m.group(2):
            return tuple(int(round(float(m.group(i)) * 2.55)) for i in (1, 3, 4)) + (255,)
        return (int(m.group(1)), int(m.group(3)), int(m.group(4)), 255)
    return KEYWORDS[t.lower()] + (255,)


# ---- renderer -----------------------------------------------------------------------------------------------------------


def render(doc, with_paint=False):
    cfg = doc["config"]
    ppi = cfg.get("ppi", 96)
    css = doc.get("css")
    root = doc["root"]
    index = {}

    def collect(n):
        index[n["id"]] = n
        for c in n["children"]:
            collect(c)

    collect(root)
    out = []
    notes = set()

    def paint_of(node, inherited):
        vals = specified(node, css)
        comp = dict(inherited)
        for k in INHERITED:
            if k in vals:
                comp[k] = vals[k]
        for k in ("fill", "stroke"):
            if comp.get(k) == "currentColor":
                comp[k] = comp.get("color", cfg.get("color", "black"))
        comp["display"] = vals.get("display", "inline")
        comp["vector-effect"] = vals.get("vector-effect")
        return comp

    def visit(node, M, vt, vw, vh, inherited, idpath):
        tag = node["tag"]
        comp = paint_of(node, inherited)
        if comp["display"] == "none":
            return
        inh = {k: comp[k] for k in INHERITED if k in comp}
        a = node["attrs"]
        T = parse_transform(a.get("transform"), ppi) if a.get("transform") else gen.IDENTITY
        if tag == "defs":
            return
        if tag == "svg":
            w = length_value(a["width"], ppi, vw) if "width" in a else vw
            h = length_value(a["height"], ppi, vh) if "height" in a else vh
            x = length_value(a["x"], ppi, vw) if "x" in a else 0.0
            y = length_value(a["y"], ppi, vh) if "y" in a else 0.0
            M2 = gen.mat_mul(T, M)
            vt2 = vt
            if w == 0 or h == 0:
                notes.add("zero-size-svg")
                return  # "a value of zero disables rendering of the element"
            if "viewBox" in a:
                vb = [float(v) for v in a["viewBox"].split()]
                if vb[2] == 0 or vb[3] == 0:
                    notes.add("zero-size-svg")
                    return
                V = viewport_transform([x, y, w, h], vb, a.get("preserveAspectRatio"))
                M2 = gen.mat_mul(V, M2)
                vt2 = gen.mat_mul(V, vt)
                nw, nh = vb[2], vb[3]
            else:
                nw, nh = w, h
                if x != 0.0 or y != 0.0:
                    notes.add("nested-svg-xy-without-viewbox")
            for c in node["children"]:
                visit(c, M2, vt2, nw, nh, inh, idpath + (node["id"],))
            return
        if tag == "g":
            M2 = gen.mat_mul(T, M)
            for c in node["children"]:
                visit(c, M2, vt, vw, vh, inh, idpath + (node["id"],))
            return
        if tag == "use":
            x = length_value(a["x"], ppi, vw) if "x" in a else 0.0
            y = length_value(a["y"], ppi, vh) if "y" in a else 0.0
            M2 = gen.mat_mul((1.0, 0.0, 0.0, 1.0, x, y), gen.mat_mul(T, M))
            target = index.get(node.get("href")) if node.get("href") else None
            if target is not None:
                visit(target, M2, vt, vw, vh, inh, idpath + (node["id"],))
            return
        segs = shape_segments(node, ppi, vw, vh)
        if segs is None:
            return
        M2 = gen.mat_mul(T, M)
        if segs:
            out.append({"idpath": idpath + (node["id"],), "id": node["id"], "tag": tag, "segs": segs, "M": M2, "vt": vt, "paint": comp, "node": node})

    # ---- root viewport
    a = root["attrs"]
    cw, ch = cfg.get("width"), cfg.get("height")
    vb = [float(v) for v in a["viewBox"].split()] if "viewBox" in a else None

    def caller(v, default):
        if v is None:
            return default
        if isinstance(v, str):
            return length_value(v, ppi, None)
        return float(v)

    W = caller(cw, vb[2] if vb else 1000.0)
    H = caller(ch, vb[3] if vb else 1000.0)
    w = length_value(a["width"], ppi, W) if "width" in a else W
    h = length_value(a["height"], ppi, H) if "height" in a else H
    Tc = parse_transform(cfg.get("transform"), ppi) if cfg.get("transform") else gen.IDENTITY
    T = parse_transform(a.get("transform"), ppi) if a.get("transform") else gen.IDENTITY
    M = gen.mat_mul(T, Tc)
    vt = gen.IDENTITY
    if w == 0 or h == 0 or (vb and (vb[2] == 0 or vb[3] == 0)):
        notes.add("zero-size-svg")
        return out, notes
    if vb:
        V = viewport_transform([0.0, 0.0, w, h], vb, a.get("preserveAspectRatio"))
        M = gen.mat_mul(V, M)
        vt = V
        vw, vh = vb[2], vb[3]
    else:
        vw, vh = w, h
    base = {"color": cfg.get("color", "black")}
    base.update(DEFAULTS)
    comp = paint_of(root, base)
    if comp["display"] != "none":
        inh = {k: comp[k] for k in INHERITED if k in comp}
        for c in root["children"]:
            visit(c, M, vt, vw, vh, inh, (root["id"],))
    return out, notes
