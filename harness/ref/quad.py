"""
Composite Gauss-Legendre quadrature of a speed function (pure Python, nodes computed by Newton iteration on the Legendre
polynomial).  arc_length() evaluates at two resolutions that must agree; otherwise the reference is inconclusive.
"""
import math


def _legendre_nodes(n):
    xs, ws = [], []
    for i in range(1, n + 1):
        x = math.cos(math.pi * (i - 0.25) / (n + 0.5))
        for _ in range(100):
            p0, p1 = 1.0, x
            for k in range(2, n + 1):
                p0, p1 = p1, ((2 * k - 1) * x * p1 - (k - 1) * p0) / k
            dp = n * (x * p1 - p0) / (x * x - 1.0)
            dx = p1 / dp
            x -= dx
            if abs(dx) < 1e-16:
                break
        xs.append(x)
        ws.append(2.0 / ((1.0 - x * x) * dp * dp))
    return xs, ws


GL_X, GL_W = _legendre_nodes(20)


def integrate(f, a, b, panels):
    total = 0.0
    h = (b - a) / panels
    for p in range(panels):
        lo = a + p * h
        mid, half = lo + h / 2.0, h / 2.0
        s = 0.0
        for x, w in zip(GL_X, GL_W):
            s += w * f(mid + half * x)
        total += s * half
    return total


def arc_length(speed, breaks):
    """integral of speed over [0, 1] with mandatory break points; -> (value, conclusive)"""
    pts = sorted(set([0.0, 1.0] + [b for b in breaks if 0.0 < b < 1.0]))
    coarse = fine = 0.0
    for a, b in zip(pts, pts[1:]):
        coarse += integrate(speed, a, b, 6)
        fine += integrate(speed, a, b, 12)
    ok = abs(coarse - fine) <= 1e-11 * max(fine, 1e-300) + 1e-300
    return fine, ok


def quad_roots(a, b, c):
    """real roots of a t^2 + b t + c"""
    if a == 0:
        return [-c / b] if b != 0 else []
    disc = b * b - 4 * a * c
    if disc < 0:
        return []
    s = math.sqrt(disc)
    q = -(b + (s if b >= 0 else -s)) / 2.0
    out = [q / a]
    if q != 0:
        out.append(c / q)
    return out
