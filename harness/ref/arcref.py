"""
SVG implementation note F.6.5 / F.6.6: conversion of an endpoint-parameterised arc to centre form, written from the
specification text.  The radicand is clamped at 0 (F.6.6 step 3 guarantees it is non-negative in exact arithmetic).
"""
import math


class CentreArc(object):
    __slots__ = ("cx", "cy", "rx", "ry", "phi", "theta1", "dtheta", "lam", "radicand")

    def point(self, t):
        th = self.theta1 + t * self.dtheta
        c, s = math.cos(self.phi), math.sin(self.phi)
        x, y = self.rx * math.cos(th), self.ry * math.sin(th)
        return (self.cx + c * x - s * y, self.cy + s * x + c * y)

    def implicit(self, p):
        """value of (x'/rx)^2 + (y'/ry)^2 - 1 for a point (0 on the ellipse)"""
        c, s = math.cos(self.phi), math.sin(self.phi)
        dx, dy = p[0] - self.cx, p[1] - self.cy
        x, y = c * dx + s * dy, -s * dx + c * dy
        return (x / self.rx) ** 2 + (y / self.ry) ** 2 - 1.0


def _angle(ux, uy, vx, vy):
    # the signed angle of F.6.5 (arccos of the normalised dot product, signed by the cross product), evaluated with
    # atan2(cross, dot): the same angle, without the loss of half the digits that arccos suffers next to 0 and pi
    return math.atan2(ux * vy - uy * vx, ux * vx + uy * vy)


def endpoint_to_centre(x1, y1, rx, ry, phi_deg, fa, fs, x2, y2):
    """returns None for the degenerate cases (coincident endpoints / a zero radius)"""
    if (x1 == x2 and y1 == y2) or rx == 0 or ry == 0:
        return None
    rx, ry = abs(rx), abs(ry)
    phi = math.radians(phi_deg % 360.0)
    c, s = math.cos(phi), math.sin(phi)
    dx, dy = (x1 - x2) / 2.0, (y1 - y2) / 2.0
    x1p = c * dx + s * dy
    y1p = -s * dx + c * dy
    lam = (x1p / rx) ** 2 + (y1p / ry) ** 2
    if lam > 1.0:
        k = math.sqrt(lam)
        rx *= k
        ry *= k
    num = rx * rx * ry * ry - rx * rx * y1p * y1p - ry * ry * x1p * x1p
    den = rx * rx * y1p * y1p + ry * ry * x1p * x1p
    rad = num / den
    a = CentreArc()
    a.radicand = rad
    if rad < 0.0 or lam > 1.0:
        rad = 0.0
    coef = math.sqrt(rad)
    if bool(fa) == bool(fs):
        coef = -coef
    cxp = coef * rx * y1p / ry
    cyp = -coef * ry * x1p / rx
    a.cx = c * cxp - s * cyp + (x1 + x2) / 2.0
    a.cy = s * cxp + c * cyp + (y1 + y2) / 2.0
    ux, uy = (x1p - cxp) / rx, (y1p - cyp) / ry
    vx, vy = (-x1p - cxp) / rx, (-y1p - cyp) / ry
    a.theta1 = _angle(1.0, 0.0, ux, uy)
    d = _angle(ux, uy, vx, vy)
    if not fs and d > 0:
        d -= 2.0 * math.pi
    elif fs and d < 0:
        d += 2.0 * math.pi
    a.dtheta = d
    a.rx, a.ry, a.phi, a.lam = rx, ry, phi, lam
    return a
