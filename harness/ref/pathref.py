"""
Reference interpreter for SVG path data, written from the specification text (SVG 1.1 8.3 / SVG 2 9.3 incl.
the segment-completing close path) and sharing no code with the library.

interpret(text) -> Result with
    segments : list of dicts  {"k": M|L|Z|Q|C|A, "s": (x,y)|None, "e": (x,y), "c1","c2" / "c", arc params,
                               "cmd": letter as written, "smooth": bool, "implicit": bool}
    error    : None or (offset, reason)  - where the grammar stopped matching; the segments emitted for the
               longest valid prefix are kept ("render up to the error")
    info     : features of the text (relative, implicit repetition, adjacency, packed flags, ...)
    spans    : list of (offset, letter) of the command letters, for splitting at command boundaries

Numbers follow the CSS/SVG number token  [+-]? (digits? '.')? digits ([eE] [+-]? digits)?  and are converted
with Python's float().  A group of arguments is the unit of implicit repetition; a 'z' standing where a
coordinate pair of an *incomplete* group (or of the very first group) is expected completes the segment with
the subpath's initial point (SVG 2 9.3.4) and is then read as the close path command.
"""

WSP = " \t\n\x0c\r"
DIGITS = "0123456789"
COMMANDS = "MmZzLlHhVvCcSsQqTtAa"
# number of numeric arguments per group; for A the 4th and 5th are flags
ARGS = {"M": 2, "L": 2, "H": 1, "V": 1, "C": 6, "S": 4, "Q": 4, "T": 2, "A": 7}


class Result(object):
    def __init__(self):
        self.segments = []
        self.error = None
        self.info = set()
        self.spans = []
        self.nonfinite = False

    def add(self, *names):
        self.info.update(names)


class _Lexer(object):
    def __init__(self, text):
        self.t = text
        self.n = len(text)
        self.pos = 0

    def skip_wsp(self):
        while self.pos < self.n and self.t[self.pos] in WSP:
            self.pos += 1

    def skip_comma_wsp(self):
        p0 = self.pos
        self.skip_wsp()
        if self.pos < self.n and self.t[self.pos] == ",":
            self.pos += 1
            self.skip_wsp()
        return self.pos != p0

    def peek(self):
        return self.t[self.pos] if self.pos < self.n else ""

    def number(self):
        """number token at pos -> (value, text) and consume it; None (nothing consumed) if there is none"""
        t, n, p = self.t, self.n, self.pos
        if p < n and t[p] in "+-":
            p += 1
        d0 = p
        while p < n and t[p] in DIGITS:
            p += 1
        int_digits = p - d0
        frac_digits = 0
        if p < n and t[p] == ".":
            q = p + 1
            while q < n and t[q] in DIGITS:
                q += 1
            frac_digits = q - (p + 1)
            if frac_digits > 0:
                p = q
        if frac_digits == 0 and int_digits == 0:
            return None
        if p < n and t[p] in "eE":
            q = p + 1
            if q < n and t[q] in "+-":
                q += 1
            e0 = q
            while q < n and t[q] in DIGITS:
                q += 1
            if q > e0:
                p = q
        text = t[self.pos : p]
        self.pos = p
        return float(text), text

    def flag(self):
        if self.pos < self.n and self.t[self.pos] in "01":
            v = self.t[self.pos] == "1"
            self.pos += 1
            return v
        return None


def _reflect(last_ctrl, degree, cur):
    if last_ctrl is not None and last_ctrl[0] == degree:
        c = last_ctrl[1]
        return (2 * cur[0] - c[0], 2 * cur[1] - c[1])
    return cur


def interpret(text, require_move=True):
    r = Result()
    lx = _Lexer(text)
    st = {"cur": (0.0, 0.0), "have": False, "start": (0.0, 0.0), "ctrl": None}

    def fail(reason):
        r.error = (lx.pos, reason)
        return r

    def note_number(tok, v):
        if v != v or v in (float("inf"), float("-inf")):
            r.nonfinite = True
        if tok[0] == "+":
            r.add("plus-sign")
        if tok.lstrip("+-").startswith("."):
            r.add("leading-dot")
        if "e" in tok or "E" in tok:
            r.add("exponent")

    first = True
    while True:
        lx.skip_wsp()
        if lx.pos >= lx.n:
            return r
        ch = lx.peek()
        if ch not in COMMANDS:
            return fail("unexpected character %r" % ch)
        if first and require_move and ch not in "Mm":
            return fail("path data must begin with a moveto")
        r.spans.append((lx.pos, ch))
        lx.pos += 1
        up = ch.upper()
        rel = ch.islower()
        if rel and up != "Z":
            r.add("relative")
        cur = st["cur"]

        if up == "Z":
            if r.segments and r.segments[-1]["k"] == "Z":
                r.add("consecutive-closes")
            r.segments.append({"k": "Z", "s": cur if st["have"] else None, "e": st["start"], "cmd": ch})
            st["cur"] = st["start"]
            st["have"] = True
            st["ctrl"] = None
            r.add("close")
            first = False
            save = lx.pos
            lx.skip_wsp()
            nxt = lx.peek()
            if nxt and nxt in "LlHhVvCcSsQqTtAa":
                r.add("close-then-nonmove")
            lx.pos = save
            continue

        nargs = ARGS[up]
        group = 0
        lx.skip_wsp()
        while True:
            # ---- read one argument group -------------------------------------------------------------
            vals = []
            zfill = False
            for i in range(nargs):
                adjacent = False
                if i > 0:
                    adjacent = not lx.skip_comma_wsp()
                if up == "A" and i in (3, 4):
                    v = lx.flag()
                    if v is None:
                        return fail("flag expected")
                    if adjacent:
                        r.add("packed-flags")
                    vals.append(v)
                    continue
                nxt = lx.peek()
                if nxt in ("z", "Z") and nxt != "" and up in "LCSQTA":
                    at_pair = (i == 5) if up == "A" else (i % 2 == 0)
                    incomplete = i > 0 or group == 0
                    if up == "A" and i == 0:
                        return fail("arc arguments expected")
                    if at_pair and incomplete:
                        zfill = True
                        break
                    return fail("close path where a number is required")
                got = lx.number()
                if got is None:
                    return fail("number expected")
                v, tok = got
                note_number(tok, v)
                if adjacent:
                    if up == "A" and i == 5:
                        r.add("packed-flags")
                    else:
                        r.add("adjacent-tokens")
                vals.append(v)
            implicit = group > 0
            if implicit:
                r.add("implicit-repetition")
            cur = st["cur"]
            start = st["start"]

            def pt(ix):
                if len(vals) < ix + 2:
                    return start  # completed by the close path
                x, y = vals[ix], vals[ix + 1]
                if rel:
                    return (cur[0] + x, cur[1] + y)
                return (x, y)

            seg = None
            if zfill:
                r.add("segment-completing-z")
            if up == "M":
                if group == 0:
                    end = pt(0) if st["have"] else (vals[0], vals[1])
                    if rel and not st["have"]:
                        r.add("leading-relative-move")
                    if r.segments and r.segments[-1]["k"] == "M":
                        r.add("consecutive-moves")
                    seg = {"k": "M", "s": cur if st["have"] else None, "e": end}
                    st["start"] = end
                else:
                    r.add("move-extra-pairs")
                    seg = {"k": "L", "s": cur, "e": pt(0)}
                st["ctrl"] = None
            elif up == "L":
                seg = {"k": "L", "s": cur, "e": start if zfill else pt(0)}
                st["ctrl"] = None
            elif up == "H":
                r.add("hv")
                seg = {"k": "L", "s": cur, "e": ((cur[0] + vals[0]) if rel else vals[0], cur[1])}
                st["ctrl"] = None
            elif up == "V":
                r.add("hv")
                seg = {"k": "L", "s": cur, "e": (cur[0], (cur[1] + vals[0]) if rel else vals[0])}
                st["ctrl"] = None
            elif up == "C":
                seg = {"k": "C", "s": cur, "c1": pt(0), "c2": pt(2), "e": pt(4), "smooth": False}
                st["ctrl"] = (3, seg["c2"])
            elif up == "S":
                _note_smooth(r, st["ctrl"], 3)
                seg = {"k": "C", "s": cur, "c1": _reflect(st["ctrl"], 3, cur), "c2": pt(0), "e": pt(2), "smooth": True}
                st["ctrl"] = (3, seg["c2"])
            elif up == "Q":
                seg = {"k": "Q", "s": cur, "c": pt(0), "e": pt(2), "smooth": False}
                st["ctrl"] = (2, seg["c"])
            elif up == "T":
                _note_smooth(r, st["ctrl"], 2)
                seg = {"k": "Q", "s": cur, "c": _reflect(st["ctrl"], 2, cur), "e": pt(0), "smooth": True}
                st["ctrl"] = (2, seg["c"])
            elif up == "A":
                seg = {
                    "k": "A", "s": cur, "e": pt(5), "rx": vals[0], "ry": vals[1], "rot": vals[2],
                    "fa": vals[3], "fs": vals[4],
                }
                st["ctrl"] = None
            seg["cmd"] = ch
            seg["implicit"] = implicit
            if zfill:
                seg["zfill"] = True
            if up != "M" and not st["have"]:
                r.add("draw-without-current-point")
            r.segments.append(seg)
            st["cur"] = seg["e"]
            st["have"] = True
            group += 1
            if zfill:
                break  # the z is read as the next command
            # ---- another group? ------------------------------------------------------------------------
            save = lx.pos
            moved = lx.skip_comma_wsp()
            nxt = lx.peek()
            if nxt and (nxt in DIGITS or nxt in "+-."):
                if not moved:
                    r.add("adjacent-tokens")
                continue
            if nxt in ("z", "Z") and nxt != "":
                lx.pos = save
                break
            lx.pos = save
            break
        first = False


def _note_smooth(r, ctrl, degree):
    if ctrl is not None and ctrl[0] == degree:
        r.add("smooth-reflecting")
    elif ctrl is not None:
        r.add("smooth-after-other-degree")
    else:
        r.add("smooth-after-noncurve")
