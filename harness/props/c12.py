"""
C12 - length units resolve by CSS ratios; length arithmetic agrees with values.

Cases:
  {"kind": "value", "a": "12.5mm", "ppi": 96, "rel": ..., "fs": .., "fh": .., "vb": "0 0 w h", "give": [...]}
  {"kind": "binop", "op": "+", "a": "3pt", "b": "4px"}
  {"kind": "convert", "a": "...", "to": "mm|cm|inch", "ppi": ..}
Oracle: exact rational arithmetic (fractions.Fraction) over the CSS absolute-unit table.
"""
import itertools
from fractions import Fraction

from .. import core, gen, lib

PROPERTY = "C12"
RULE = (
    "cases are (pairs) every ordered pair of the 14 units x {+, -, /, <, <=, ==} x 8 amount pairs, enumerated "
    "exhaustively, (values) every unit x ppi x supplied/withheld context, enumerated, (sampled) generated decimal "
    "amounts (sign, fraction, exponent) for values (percentages with the reference length given as a number, as text or as a Length in any of the 12 other units), binary operations and conversions. Non-trivial = two different "
    "units with both amounts non-zero (binary operations) / a unit other than px/unitless (values); distinct by "
    "the case."
)
ASSUMPTIONS = [
    'an operation refused with ValueError (unrelated units) must leave both operands as they were: each still resolves to its own value',
    "CSS absolute ratios: 1in = ppi user units = 2.54cm = 25.4mm, 1pt = 4/3, 1pc = 16, px = unitless = 1",
    "resolvable families for arithmetic without context: {'', px, pt, pc}, {in, cm, mm}, identical units otherwise; "
    "across families the library may raise ValueError but must not return a number",
    "a result that differs from the exact table but agrees at 1e-12 relative with the same computation using the "
    "library's documented six-digit inch constants is known finding KF-INCH-CONSTANT (pinned by the suite)",
    "equality pairs are equal by construction or differ by more than 1e-6 relative, so the library's 1e-12 window is "
    "never the deciding factor; cross-family equality is not judged",
]
TOLERANCES = {"value": "1e-12 relative", "to_mm/cm/inch": "2e-12 absolute + 1e-12 relative (12-decimal text)"}

UNITS = ["", "px", "pt", "pc", "in", "cm", "mm", "%", "em", "ex", "vw", "vh", "vmin", "vmax"]
PXF = {"": Fraction(1), "px": Fraction(1), "pt": Fraction(4, 3), "pc": Fraction(16)}
INF_EXACT = {"in": Fraction(1), "cm": Fraction(100, 254), "mm": Fraction(10, 254)}
INF_LIB = {"in": Fraction(1), "cm": Fraction("0.393701"), "mm": Fraction("0.0393701")}
OPS = ["+", "-", "/", "<", "<=", "=="]
MANDATORY_LABELS = {"quick": ["op:%s" % o for o in OPS] + ["value:%s" % (u or "none") for u in UNITS] + ["to:mm", "to:cm", "to:inch"] + ["fontunit:px", "fontunit:pt", "fontunit:pc", "fontunit:none", "value:extreme-factors", "value:zero-reference"] + ["relunit:%s" % u for u in ("px", "pt", "pc", "in", "cm", "mm", "em", "ex", "vw", "vh", "vmin", "vmax")]}
MANDATORY_LABELS["thorough"] = MANDATORY_LABELS["quick"]

AMOUNT_PAIRS = [("2", "3"), ("3", "2"), ("1.5", "-4"), ("-2.25", "0.5"), ("10", "10"), ("1e1", ".25"), ("0", "7"), ("5", "0")]


def family(u):
    if u in PXF:
        return "px"
    if u in INF_EXACT:
        return "in"
    return "same:" + u


def pair_cases():
    for ua, ub in itertools.product(UNITS, UNITS):
        for op in OPS:
            for x, y in AMOUNT_PAIRS:
                if op == "/" and Fraction(y) == 0:
                    continue
                yield {"kind": "binop", "op": op, "a": x + ua, "b": y + ub}
    # equal-by-construction pairs for == and ordering inside each family
    for k in (1, 3, 8, -5, 20):
        base_pc = Fraction(k, 8)
        px = {"": base_pc * 16, "px": base_pc * 16, "pt": base_pc * 12, "pc": base_pc}
        for ua, ub in itertools.product(px, px):
            for op in ("==", "<", "<=", "-"):
                yield {"kind": "binop", "op": op, "a": fstr(px[ua]) + ua, "b": fstr(px[ub]) + ub}
        base_mm = Fraction(k)
        inch = {"mm": base_mm, "cm": base_mm / 10, "in": base_mm * 10 / 254}
        for ua, ub in itertools.product(inch, inch):
            for op in ("==", "<", "<="):
                yield {"kind": "binop", "op": op, "a": fstr(inch[ua]) + ua, "b": fstr(inch[ub]) + ub}


def fstr(fr):
    """Fraction -> decimal text that float() reads as the nearest double"""
    return repr(float(fr))


def value_cases():
    for u in UNITS:
        for amt in ("1", "2.5", "-3", "0", "1e2", ".125"):
            for ppi in (72, 96, 100, 254, 300):
                for give in (True, False):
                    for vb in ("0 0 200 100", "0 0 100 300"):
                        for relkind in ("number", "string", "length"):
                            yield {"kind": "value", "a": amt + u, "ppi": ppi, "give": give, "rel": 250.0, "relkind": relkind, "fs": 12.0, "fh": 7.0, "vb": vb}
                            if u != "%":
                                break
                        if u not in ("vw", "vh", "vmin", "vmax"):
                            break
                if u not in ("in", "cm", "mm"):
                    break
    for u in UNITS[:7]:
        for to in ("mm", "cm", "inch"):
            for ppi in (72, 96, 254):
                for amt in ("1", "25.4", "-3.5", "1e2"):
                    yield {"kind": "convert", "a": amt + u, "to": to, "ppi": ppi}


def amount_text(d):
    k = d.below(6)
    if k == 0:
        s = str(d.below(1000))
    elif k == 1:
        s = "%d.%s" % (d.below(100), "".join(str(d.below(10)) for _ in range(d.int(1, 6))))
    elif k == 2:
        s = "." + "".join(str(d.below(10)) for _ in range(d.int(1, 4)))
    elif k == 3:
        s = "%s%s%s%d" % (d.choice(["1", "2.5", ".5", "12"]), d.choice("eE"), d.choice(["", "-", "+"]), d.below(4))
    elif k == 4:
        s = d.choice(["0", "0.0", "1", "10", "100"])
    else:
        s = repr(gen.loguniform(d, -3.0, 4.0, signed=False))
    sign = d.choice(["", "", "-", "+"])
    return sign + s


def decode(d):
    kind = d.choice(["binop", "binop", "value", "convert"])
    if kind == "binop":
        ua = d.choice(UNITS)
        ub = d.choice([u for u in UNITS if family(u) == family(ua)]) if d.chance(6, 8) else d.choice(UNITS)
        op = d.choice(OPS)
        case = {"kind": "binop", "op": op, "a": amount_text(d) + ua, "b": amount_text(d) + ub}
        if d.chance(1, 3):
            # one operand is not a Length object but what a Length is made from: its text, or a plain number
            which = d.below(2)
            unit = (ua, ub)[which]
            forms = ["length", "length"]
            # (a Length divided by a plain number is scaling, not the ratio of two lengths: numbers are not used with /)
            forms[which] = "number" if unit == "" and op != "/" and d.bool() else "text"
            case["forms"] = forms
        return case
    if kind == "value":
        u = d.choice(UNITS + ["%", "%", "%"])
        w, h = gen.loguniform(d, 0.0, 3.0, signed=False), gen.loguniform(d, 0.0, 3.0, signed=False)
        if d.chance(1, 10):
            # a very small percentage of a very large reference (or the reverse): the product is ordinary, the factors are not
            k = d.int(8, 14)
            small = "%s%s-%d" % (d.choice(["1", "2.5", "1.23456789", "-3"]), d.choice("eE"), k)
            big = float("%se%d" % (d.choice(["1", "4", "2.5"]), k + d.int(1, 3)))
            swap = d.bool()
            return {
                "kind": "value", "a": (small if not swap else repr(big)) + "%", "ppi": d.choice([72, 96, 100, 254, 300]), "give": True,
                "rel": big if not swap else float(small), "relkind": d.choice(["number", "string", "length", "unit-string"]), "relunit": d.choice(["px", "", "pt", "pc", "in"]) or "px",
                "fontunit": None, "fs": 12.0, "fh": 7.0, "vb": "0 0 %r %r" % (w, h), "extreme": True,
            }
        return {
            "kind": "value", "a": amount_text(d) + u, "ppi": d.choice([72, 96, 100, 254, 300]), "give": d.chance(6, 8),
            # (a reference of exactly zero - a degenerate viewport - is a reference like any other: p% of 0 is 0)
            "rel": gen.loguniform(d, -1.0, 4.0, signed=False) if not d.chance(1, 12) else d.choice([0.0, 0, -0.0]), "relkind": d.choice(["number", "string", "length", "unit-string"]),
            "relunit": d.choice(["px", "px", "pt", "pc", "in", "cm", "mm", "em", "ex", "vw", "vh", "vmin", "vmax"]),
            "fontunit": d.choice([None, None, "px", "pt", "pc", ""]),  # font metrics given as numbers or as Length objects
            "fs": gen.loguniform(d, 0.0, 2.0, signed=False), "fh": gen.loguniform(d, 0.0, 2.0, signed=False),
            "vb": "%s %s %s %s" % (repr(gen.small_coord(d)), repr(gen.small_coord(d)), repr(w), repr(h)),
        }
    return {"kind": "convert", "a": amount_text(d) + d.choice(UNITS[:7]), "to": d.choice(["mm", "cm", "inch"]), "ppi": d.choice([72, 96, 100, 254, 300])}


def parts(tier):
    n = 15000 if tier == "quick" else 60000
    return [
        core.Part("pairs", "exhaustive", pair_cases),
        core.Part("values", "exhaustive", value_cases),
        core.Part("sampled", "sampled", lambda: gen.cases(decode, 96), budget=n),
    ]


def split(text):
    i = len(text)
    while i > 0 and (text[i - 1].isalpha() or text[i - 1] == "%"):
        i -= 1
    # an exponent marker belongs to the number only when digits follow ("1e3" vs "1em")
    num, unit = text[:i], text[i:]
    return Fraction(float(num)), unit  # the library reads float(token); so does the oracle


def resolve(amount, unit, ctx, table):
    """exact value in user units, or None if the context does not allow resolution"""
    if unit in PXF:
        return amount * PXF[unit]
    if unit in table:
        if ctx.get("ppi") is None:
            return None
        return amount * table[unit] * Fraction(ctx["ppi"])
    if unit == "%":
        return None if ctx.get("rel") is None else amount * ctx["rel"] / 100
    if unit == "em":
        return None if ctx.get("fs") is None else amount * ctx["fs"]
    if unit == "ex":
        return None if ctx.get("fh") is None else amount * ctx["fh"]
    if ctx.get("vb") is None:
        return None
    w, h = ctx["vb"]
    ref = {"vw": w, "vh": h, "vmin": min(w, h), "vmax": max(w, h)}[unit]
    return amount * ref / 100


def rel_close(got, want, rel=1e-12, abs_=0.0):
    want = float(want)
    return abs(got - want) <= abs_ + rel * max(abs(want), abs(got))


def judge(o, got, exact, alt, what, bucket, rel=1e-12, abs_=0.0):
    """number vs exact expectation with the dual table"""
    if not isinstance(got, (int, float)) or isinstance(got, bool):
        return o.violation(bucket + ":not-a-number", "%s returned %r, expected %r" % (what, got, float(exact)))
    if rel_close(got, exact, rel, abs_):
        return None
    if alt is not None and rel_close(got, alt, rel, abs_):
        return o.known("KF-INCH-CONSTANT", "%s = %r, exact %r" % (what, got, float(exact)))
    return o.violation(bucket, "%s = %r, expected %r" % (what, got, float(exact)))


def check(case):
    kind = case["kind"]
    if kind == "binop":
        return check_binop(case)
    if kind == "value":
        return check_value(case)
    return check_convert(case)


def check_value(case):
    se = lib.L()
    o = core.Obs()
    amount, unit = split(case["a"])
    o.label("value:%s" % (unit or "none"))
    if case.get("extreme"):
        o.label("value:extreme-factors")
    if case.get("give") and float(case["rel"]) == 0.0:
        o.label("value:zero-reference")
    give = case["give"]
    vbnums = [Fraction(float(v)) for v in case["vb"].split()]
    ctx = {}
    kw = {}
    alt_ctx = None
    if give:
        ctx = {"ppi": case["ppi"], "rel": Fraction(float(case["rel"])), "fs": Fraction(float(case["fs"])), "fh": Fraction(float(case["fh"])), "vb": (vbnums[2], vbnums[3])}
        fu = case.get("fontunit")
        if fu is not None:
            # the same metrics handed over as lengths: "12pt" is the usual spelling of a font size
            o.label("fontunit:%s" % (fu or "none"))
            ctx["fs"] = Fraction(float(case["fs"])) * PXF[fu]
            ctx["fh"] = Fraction(float(case["fh"])) * PXF[fu]
        rk = case.get("relkind", "number")
        ru = case.get("relunit", "px")
        if float(case["rel"]) == 0.0:
            rk = "number"  # (a zero reference handed over as text or Length comes back as the symbolic Length('0%'): not judged)
        if rk == "number":
            rel = case["rel"]
        elif rk == "string":
            rel = repr(case["rel"])
        else:
            # the reference length carries a unit of its own and is resolved in the same context first
            rel = repr(case["rel"]) + ru
            if rk == "length":
                rel = se.Length(rel)
            o.label("relunit:%s" % ru)
            if ru in ("mm", "cm"):
                alt_ctx = dict(ctx, rel=resolve(ctx["rel"], ru, ctx, INF_LIB))
            ctx["rel"] = resolve(ctx["rel"], ru, ctx, INF_EXACT)
        o.label("rel:%s" % rk)
        kw = {"ppi": case["ppi"], "relative_length": rel, "font_size": case["fs"], "font_height": case["fh"], "viewbox": case["vb"]}
        if fu is not None:
            kw["font_size"] = se.Length(repr(case["fs"]) + fu)
            kw["font_height"] = se.Length(repr(case["fh"]) + fu)
        o.label("vb:%s" % ("wide" if vbnums[2] > vbnums[3] else "tall"))
    length = se.Length(case["a"])
    got = length.value(**kw)
    exact = resolve(amount, unit, ctx, INF_EXACT)
    if exact is None:
        o.label("context:withheld")
        if isinstance(got, (int, float)) and not isinstance(got, bool):
            return o.violation("guessed-value:%s" % unit, "Length(%r).value() = %r with nothing to resolve the unit against" % (case["a"], got))
        o.nontrivial = unit not in ("", "px")
        return o.ok()
    alt = resolve(amount, unit, ctx, INF_LIB) if unit in ("mm", "cm") else None
    if unit == "%" and give and alt_ctx is not None:
        alt = resolve(amount, unit, alt_ctx, INF_LIB)  # a mm/cm reference length carries the inch-constant finding
    bad = judge(o, got, exact, alt, "Length(%r).value(%s)" % (case["a"], ", ".join("%s=%r" % kv for kv in sorted(kw.items(), key=lambda kv: kv[0]))), "value:%s" % (unit or "none"))
    if bad is not None:
        return bad
    o.nontrivial = unit not in ("", "px") and amount != 0
    return o.ok()


def check_convert(case):
    se = lib.L()
    o = core.Obs()
    amount, unit = split(case["a"])
    to, ppi = case["to"], case["ppi"]
    o.label("to:%s" % to)
    ctx = {"ppi": ppi}
    f = getattr(se.Length(case["a"]), "to_" + to)
    res = f(ppi=ppi)
    tunit = {"mm": "mm", "cm": "cm", "inch": "in"}[to]
    if not isinstance(res, se.Length) or res.units != tunit:
        return o.violation("convert:result-type", "Length(%r).to_%s(ppi=%s) = %r" % (case["a"], to, ppi, res))
    exact = resolve(amount, unit, ctx, INF_EXACT) / (INF_EXACT[tunit] * ppi)
    alt = resolve(amount, unit, ctx, INF_LIB) / (INF_LIB[tunit] * ppi)
    bad = judge(o, res.amount, exact, alt, "Length(%r).to_%s(ppi=%s).amount" % (case["a"], to, ppi), "convert:%s->%s" % (unit or "none", to), rel=1e-12, abs_=2e-12)
    if bad is not None:
        return bad
    o.nontrivial = unit != tunit and amount != 0
    return o.ok()


DEFAULT_CTX = {"ppi": 96, "rel": Fraction(250), "fs": Fraction(12), "fh": Fraction(7), "vb": (Fraction(200), Fraction(100))}
DEFAULT_KW = {"ppi": 96, "relative_length": 250.0, "font_size": 12.0, "font_height": 7.0, "viewbox": "0 0 200 100"}


def check_binop(case):
    se = lib.L()
    o = core.Obs()
    op = case["op"]
    xa, ua = split(case["a"])
    xb, ub = split(case["b"])
    o.label("op:%s" % op, "pair:%s,%s" % (ua or "none", ub or "none"))
    same_family = family(ua) == family(ub)
    a, b = se.Length(case["a"]), se.Length(case["b"])
    sa, sb = (a.amount, a.units), (b.amount, b.units)
    forms = case.get("forms") or ["length", "length"]
    operand = lambda obj, text, x, form: obj if form == "length" else text if form == "text" else float(x)
    oa, ob = operand(a, case["a"], xa, forms[0]), operand(b, case["b"], xb, forms[1])
    spell = lambda text, x, form: "Length(%r)" % text if form == "length" else repr(text) if form == "text" else repr(float(x))
    what = "%s %s %s" % (spell(case["a"], xa, forms[0]), op, spell(case["b"], xb, forms[1]))
    if forms != ["length", "length"]:
        o.label("operand-form:%s-%s" % tuple(forms))
    try:
        if op == "+":
            res = oa + ob
        elif op == "-":
            res = oa - ob
        elif op == "/":
            res = oa / ob
        elif op == "<":
            res = oa < ob
        elif op == "<=":
            res = oa <= ob
        else:
            res = oa == ob
    except TypeError:
        if forms == ["length", "length"]:
            raise
        return o.excluded("operand form %s-%s is not supported by the operator %s" % (forms[0], forms[1], op))
    except ValueError:
        if same_family:
            return o.violation("raises-within-family:%s" % op, "%s raised ValueError" % what)
        o.label("cross-family:ValueError")
        # a refused operation leaves both lengths what they were: each still resolves to its own value
        if (a.amount, a.units) != sa or (b.amount, b.units) != sb:
            return o.violation("operand-modified-by-refused:%s" % op, "%s raised ValueError and left the operands as %r and %r" % (what, a, b))
        return o.ok(nontrivial=False)
    except ZeroDivisionError:
        if op == "/" and xb == 0:
            return o.excluded("division by a zero length")
        raise
    if (a.amount, a.units) != sa or (b.amount, b.units) != sb:
        return o.violation("operand-modified:%s" % op, "%s changed an operand" % what)
    va, vb = resolve(xa, ua, DEFAULT_CTX, INF_EXACT), resolve(xb, ub, DEFAULT_CTX, INF_EXACT)
    la, lb = resolve(xa, ua, DEFAULT_CTX, INF_LIB), resolve(xb, ub, DEFAULT_CTX, INF_LIB)
    inchy = (ua in ("mm", "cm") or ub in ("mm", "cm"))
    if not same_family:
        # a zero operand is neutral in any unit, so sums with a zero are still decidable
        if op in ("+", "-") and (xa == 0 or xb == 0) and isinstance(res, se.Length):
            got = res.value(**DEFAULT_KW)
            exact = va + vb if op == "+" else va - vb
            bad = judge(o, got, exact, (la + lb if op == "+" else la - lb) if inchy else None, "(%s).value()" % what, "sum-with-zero")
            return bad if bad is not None else o.ok(nontrivial=False)
        if op == "==":
            return o.excluded("cross-family equality")
        if op == "/" and xa == 0:
            return o.ok(nontrivial=False)
        if isinstance(res, (int, float)) and not isinstance(res, bool) and op == "/":
            return o.violation("cross-family-number:/", "%s = %r although the units cannot be related without context" % (what, res))
        if op in ("+", "-") and isinstance(res, se.Length):
            return o.violation("cross-family-sum", "%s = %r although the units cannot be related without context" % (what, res))
        if op in ("<", "<=") and (xa == 0 or xb == 0):
            return o.excluded("ordering against a zero length of an unrelated unit")
        if op in ("<", "<="):
            return o.violation("cross-family-order", "%s = %r although the units cannot be related without context" % (what, res))
        return o.ok(nontrivial=False)
    o.nontrivial = ua != ub and xa != 0 and xb != 0
    if op in ("+", "-"):
        if not isinstance(res, se.Length):
            return o.violation("sum-type", "%s = %r" % (what, res))
        got = res.value(**DEFAULT_KW)
        exact = va + vb if op == "+" else va - vb
        alt = (la + lb if op == "+" else la - lb) if inchy else None
        scale = max(abs(va), abs(vb), Fraction(1, 10 ** 300))
        if isinstance(got, (int, float)) and abs(got - float(exact)) <= 1e-12 * float(scale):
            return o.ok()
        if alt is not None and isinstance(got, (int, float)) and abs(got - float(alt)) <= 1e-12 * float(scale):
            return o.known("KF-INCH-CONSTANT", "(%s).value() = %r, exact %r" % (what, got, float(exact)))
        return o.violation("sum:%s" % family(ua), "(%s).value() = %r, expected %r" % (what, got, float(exact)))
    if op == "/":
        if xa == 0:
            exact = Fraction(0)
            alt = None
        else:
            exact = va / vb
            alt = la / lb if inchy else None
        bad = judge(o, res, exact, alt, what, "ratio:%s" % family(ua))
        return bad if bad is not None else o.ok()
    # comparisons
    if op == "==":
        want = va == vb
        altw = la == lb
        near = (va != vb) and abs(va - vb) <= Fraction(1, 10 ** 6) * max(abs(va), abs(vb))
    else:
        want = (va < vb) if op == "<" else (va <= vb)
        altw = (la < lb) if op == "<" else (la <= lb)
        near = abs(va - vb) <= Fraction(1, 10 ** 6) * max(abs(va), abs(vb), Fraction(1, 10 ** 30)) and va != vb
    if near:
        return o.excluded("amounts within 1e-6 relative of each other")
    if bool(res) == want:
        return o.ok()
    if inchy and bool(res) == altw:
        return o.known("KF-INCH-CONSTANT", "%s = %r, exact arithmetic gives %r" % (what, res, want))
    return o.violation("compare:%s:%s" % ("==" if op == "==" else "order", family(ua)), "%s = %r, values are %r and %r" % (what, res, float(va), float(vb)))
