"""
C13 - colour spellings denote their CSS/SVG RGBA values; accessors are consistent.

Cases (plain data):
  {"k": "kw", "name": "aliceblue", "text": "AliceBlue"}
  {"k": "hex", "text": "#1a2"}
  {"k": "rgb", "args": [r, g, b], "alpha": a | None, "text": "rgb( 1, 2,3)"}
  {"k": "rgbp", "args": [..percent numbers as text..], "alpha": .., "text": ..}
  {"k": "hsl", "h": text, "s": text, "l": text, "alpha": .., "text": ..}
  {"k": "none"}
  {"k": "acc", "value": 0xRRGGBBAA, "ops": [[name, arg], ...]}
Oracle: keyword table (harness/ref/colortable.py), hex arithmetic, CSS clamping rules, stdlib colorsys for HSL, and a
four-component model for the accessor histories.
"""
import colorsys
import itertools

from .. import core, gen, lib
from ..ref.colortable import BASIC_16, KEYWORDS

PROPERTY = "C13"
RULE = (
    "cases are (keywords) the 147 keywords + transparent x {lower, UPPER, Title, mIxEd} enumerated, (hex3/hex4) all "
    "4096 + 65536 three/four-digit hex strings enumerated, (channels) each of red/green/blue/alpha written with every "
    "value 0..255 on fixed colours, (sampled) 6/8-digit hex, rgb()/rgba() with integers in and out of range, "
    "percentages incl. fractional and out of range, hsl()/hsla() with hues in -1080..1080, optional alpha, and "
    "accessor histories of up to 6 setter calls on generated 32-bit colours; the integer, positional and keyword forms "
    "of the constructor. Non-trivial = anything but one of the "
    "16 basic keywords in lower case / a non-grey colour for accessor histories; distinct by the case."
)
ASSUMPTIONS = [
    "percentage and HSL forms: each channel within 1 of 255 x exact value (the property fixes the value, not the rounding "
    "mode at .5); alpha within 0.5 of 255 x clamp(a)",
    "fractional arguments in the integer rgb() form, unit-bearing hues and upper-case function names are not generated "
    "(the statement lists none of them)",
    "the rgb and bgr integer packings carry no alpha; what their setters do to alpha is not judged (the library makes "
    "the colour opaque, Color(int) relies on that)",
    "hue/saturation/lightness setters are judged in RGB space: within 1 per channel of colorsys.hls_to_rgb of the "
    "previous (h, s, l) with the written component replaced, alpha unchanged; hue is in degrees as the getter returns it",
]
TOLERANCES = {"channel (percent/hsl)": 1, "alpha": 0.5}
CTOR_FORMS = ["int", "rgb3", "rgb4", "kw:red..alpha", "kw:r,g,b", "kw:rgb", "kw:bgr", "kw:argb", "kw:rgba", "text+opacity", "copy"]
MANDATORY_LABELS = {"quick": ["form:kw", "form:hex3", "form:hex4", "form:hex6", "form:hex8", "form:rgb", "form:rgba", "form:rgbp", "form:hsl", "form:hsla", "form:none", "set:red", "set:green", "set:blue", "set:alpha", "set:opacity", "set:hue", "set:saturation", "set:lightness", "set:rgb", "set:argb", "set:rgba", "set:bgr"] + ["ctor:%s" % f for f in CTOR_FORMS]}
MANDATORY_LABELS["thorough"] = MANDATORY_LABELS["quick"]


def mixed(name):
    return "".join(c.upper() if i % 3 == 1 else c for i, c in enumerate(name))


def keyword_cases():
    for name in sorted(KEYWORDS) + ["transparent"]:
        for text in (name, name.upper(), name.title(), mixed(name)):
            yield {"k": "kw", "name": name, "text": text}
    yield {"k": "none"}


HEXD = "0123456789abcdef"


def hex3_cases():
    for t in itertools.product(HEXD, repeat=3):
        s = "".join(t)
        yield {"k": "hex", "text": "#" + (s.upper() if (int(s, 16) % 5 == 0) else s)}


def hex4_cases():
    for t in itertools.product(HEXD, repeat=4):
        s = "".join(t)
        yield {"k": "hex", "text": "#" + (s.upper() if (int(s, 16) % 7 == 0) else s)}


FIXED = [0x336699FF, 0x00000000, 0xFFFFFFFF, 0x12345678, 0x80808080, 0xFF0000C0]


def channel_cases():
    for name in ("red", "green", "blue", "alpha"):
        for base in FIXED:
            for v in range(256):
                yield {"k": "acc", "value": base, "ops": [[name, v]]}


def num(d, lo, hi, frac=True):
    k = d.below(4)
    if k == 0 or not frac:
        return str(d.int(int(lo), int(hi)))
    if k == 1:
        return "%d.%d" % (d.int(int(lo), int(hi)), d.below(100))
    if k == 2:
        return d.choice(["0", "100", "50", "255", "-1", "256", "0.5", "99.6", "33.3333", "120", "360", "-120"])
    return repr(gen.r6(d.uniform(lo, hi)))


def alpha_text(d):
    if d.bool():
        return None
    return d.choice(["0", "1", "0.5", ".5", "0.25", "1.5", "-0.5", "0.999", "0.002", "1.0", "0.0"]) if d.bool() else ("%.3f" % d.uniform(-0.2, 1.2))


def join_args(d, name, args):
    sp = lambda: d.choice(["", "", " ", "  "])
    return "%s(%s%s%s)" % (name, sp(), ",".join(sp() + a + sp() for a in args).strip() if d.bool() else ", ".join(args), sp())


def decode(d):
    kind = d.choice(["hex6", "hex8", "rgb", "rgb", "rgbp", "rgbp", "hsl", "hsl", "hsl", "acc", "acc", "acc", "hexrt", "ctor", "ctor"])
    if kind == "hex6":
        s = "".join(d.choice(HEXD) for _ in range(6))
        return {"k": "hex", "text": "#" + (s.upper() if d.bool() else s)}
    if kind == "hex8":
        s = "".join(d.choice(HEXD) for _ in range(8))
        return {"k": "hex", "text": "#" + (s.upper() if d.bool() else s)}
    if kind == "rgb":
        args = [str(d.int(0, 255)) if d.chance(6, 8) else str(d.int(-300, 600)) for _ in range(3)]
        a = alpha_text(d)
        return {"k": "rgb", "args": args, "alpha": a, "text": join_args(d, "rgba" if (a is not None and d.chance(7, 8)) else "rgb", args + ([a] if a is not None else []))}
    if kind == "rgbp":
        args = [num(d, 0, 100) if d.chance(6, 8) else num(d, -50, 250) for _ in range(3)]
        a = alpha_text(d)
        return {"k": "rgbp", "args": args, "alpha": a, "text": join_args(d, "rgba" if (a is not None and d.chance(7, 8)) else "rgb", [x + "%" for x in args] + ([a] if a is not None else []))}
    if kind == "hsl":
        h = num(d, 0, 360) if d.chance(5, 8) else num(d, -1080, 1080)
        s = num(d, 0, 100) if d.chance(6, 8) else num(d, -50, 200)
        l = num(d, 0, 100) if d.chance(6, 8) else num(d, -50, 200)
        a = alpha_text(d)
        return {"k": "hsl", "h": h, "s": s, "l": l, "alpha": a, "text": join_args(d, "hsla" if (a is not None and d.chance(7, 8)) else "hsl", [h, s + "%", l + "%"] + ([a] if a is not None else []))}
    if kind == "hexrt":
        return {"k": "acc", "value": d.below(2 ** 32), "ops": []}
    if kind == "ctor":
        # the integer and keyword forms of the constructor
        form = d.choice(CTOR_FORMS)
        return {"k": "ctor", "form": form, "r": d.int(0, 255), "g": d.int(0, 255), "b": d.int(0, 255), "a": d.int(0, 255) if d.chance(6, 8) else d.choice([0, 255, 128])}
    ops = []
    for _ in range(d.int(1, 6)):
        name = d.choice(["red", "green", "blue", "alpha", "opacity", "hue", "saturation", "lightness", "rgb", "rgba", "argb", "bgr"])
        if name in ("red", "green", "blue", "alpha"):
            arg = d.int(0, 255) if d.chance(6, 8) else d.int(-100, 400)
        elif name == "opacity":
            arg = d.choice([0.0, 1.0, 0.5, 0.25]) if d.bool() else gen.r6(d.uniform(-0.2, 1.2))
        elif name == "hue":
            arg = float(d.choice([0, 60, 120, 180, 240, 300, 359])) if d.bool() else gen.r6(d.uniform(0.0, 360.0))
        elif name in ("saturation", "lightness"):
            arg = d.choice([0.0, 1.0, 0.5, 0.25, 0.75]) if d.bool() else gen.r6(d.uniform(0.0, 1.0))
        elif name in ("rgb", "bgr"):
            arg = d.below(2 ** 24)
        else:
            arg = d.below(2 ** 32)
        ops.append([name, arg])
    value = d.below(2 ** 32) if d.chance(6, 8) else d.choice(FIXED)
    return {"k": "acc", "value": value, "ops": ops}


def check_ctor(case):
    """every documented way to hand numbers to Color(...) denotes the same colour as the hex text of those numbers"""
    se = lib.L()
    o = core.Obs()
    form, r, g, b, a = case["form"], case["r"], case["g"], case["b"], case["a"]
    o.label("ctor:%s" % form)
    judged_alpha = True
    want_a = a
    if form == "int":
        c = se.Color((r << 16) | (g << 8) | b)
        judged_alpha = False  # the rgb packing carries no alpha (see ASSUMPTIONS)
    elif form == "rgb3":
        c = se.Color(r, g, b)
        want_a = 255
    elif form == "rgb4":
        c = se.Color(r, g, b, a)
    elif form == "kw:red..alpha":
        c = se.Color(red=r, green=g, blue=b, alpha=a)
    elif form == "kw:r,g,b":
        c = se.Color(r=r, g=g, b=b)
        judged_alpha = False
    elif form == "kw:rgb":
        c = se.Color(rgb=(r << 16) | (g << 8) | b)
        judged_alpha = False
    elif form == "kw:bgr":
        c = se.Color(bgr=(b << 16) | (g << 8) | r)
        judged_alpha = False
    elif form == "kw:argb":
        c = se.Color(argb=(a << 24) | (r << 16) | (g << 8) | b)
    elif form == "kw:rgba":
        c = se.Color(rgba=(r << 24) | (g << 16) | (b << 8) | a)
    elif form == "text+opacity":
        c = se.Color("#%02x%02x%02x" % (r, g, b), a / 255.0)
    else:
        src = se.Color("#%02x%02x%02x%02x" % (r, g, b, a))
        c = se.Color(src)
        if not (c == src) or c is src:
            return o.violation("ctor:copy", "Color(Color(#%02x%02x%02x%02x)) = %r" % (r, g, b, a, rgba_of(c)))
    got = rgba_of(c)
    if tuple(got[:3]) != (r, g, b):
        return o.violation("ctor:%s" % form, "Color via %s with r,g,b,a = %r gives %r" % (form, (r, g, b, a), got))
    if judged_alpha and abs(got[3] - want_a) > 1:
        return o.violation("ctor:%s:alpha" % form, "Color via %s with r,g,b,a = %r gives alpha %r" % (form, (r, g, b, a), got[3]))
    o.nontrivial = not (r == g == b)
    return o.ok()


def parts(tier):
    n = 20000 if tier == "quick" else 60000
    return [
        core.Part("keywords", "exhaustive", keyword_cases),
        core.Part("hex3", "exhaustive", hex3_cases),
        core.Part("hex4", "exhaustive", hex4_cases),
        core.Part("channels", "exhaustive", channel_cases),
        core.Part("sampled", "sampled", lambda: gen.cases(decode, 96), budget=n),
    ]


def clamp(v, lo, hi):
    return lo if v < lo else hi if v > hi else v


def rgba_of(c):
    return (c.red, c.green, c.blue, c.alpha)


def alpha_expect(a):
    return 255.0 if a is None else 255.0 * clamp(float(a), 0.0, 1.0)


def check(case):
    k = case["k"]
    if k == "acc":
        return check_accessors(case)
    if k == "ctor":
        return check_ctor(case)
    se = lib.L()
    o = core.Obs()
    if k == "none":
        o.label("form:none")
        c = se.Color("none")
        if c.value is not None:
            return o.violation("none", "Color('none').value = %r" % c.value)
        return o.ok(nontrivial=True)
    text = case["text"]
    c = se.Color(text)
    if c.value is None:
        return o.violation("parse-none", "Color(%r).value is None" % text)
    got = rgba_of(c)
    if k == "kw":
        o.label("form:kw")
        want = (0, 0, 0, 0) if case["name"] == "transparent" else KEYWORDS[case["name"]] + (255,)
        if got != want:
            return o.violation("keyword", "Color(%r) = %r, table says %r" % (text, got, want))
        o.nontrivial = not (case["name"] in BASIC_16 and text == case["name"])
        return o.ok()
    if k == "hex":
        h = text.lstrip("#").lower()
        o.label("form:hex%d" % len(h))
        if len(h) in (3, 4):
            h = "".join(ch * 2 for ch in h)
        if len(h) == 6:
            h += "ff"
        want = tuple(int(h[i:i + 2], 16) for i in (0, 2, 4, 6))
        if got != want:
            return o.violation("hex%d" % len(text.lstrip("#")), "Color(%r) = %r, expected %r" % (text, got, want))
        # round trip of the hex accessor
        if se.Color(c.hex) != c or rgba_of(se.Color(c.hex)) != got:
            return o.violation("hex-roundtrip", "Color(Color(%r).hex = %r) = %r" % (text, c.hex, rgba_of(se.Color(c.hex))))
        return o.ok(nontrivial=True)
    a = case.get("alpha")
    aw = alpha_expect(a)
    if k == "rgb":
        o.label("form:rgba" if a is not None else "form:rgb")
        want = tuple(clamp(int(v), 0, 255) for v in case["args"])
        if got[:3] != want:
            return o.violation("rgb-integers", "Color(%r) = %r, expected %r" % (text, got, want))
        if any(int(v) < 0 or int(v) > 255 for v in case["args"]):
            o.label("class:rgb-out-of-range")
    elif k == "rgbp":
        o.label("form:rgbp")
        want = tuple(255.0 * clamp(float(v), 0.0, 100.0) / 100.0 for v in case["args"])
        if any(abs(g - w) > 1.0 + 1e-9 for g, w in zip(got[:3], want)):
            return o.violation("rgb-percent", "Color(%r) = %r, expected about %r" % (text, got, want))
        if any(float(v) < 0 or float(v) > 100 for v in case["args"]):
            o.label("class:percent-out-of-range")
    else:
        o.label("form:hsla" if a is not None else "form:hsl")
        h = (float(case["h"]) % 360.0) / 360.0
        s = clamp(float(case["s"]), 0.0, 100.0) / 100.0
        l = clamp(float(case["l"]), 0.0, 100.0) / 100.0
        want = tuple(255.0 * v for v in colorsys.hls_to_rgb(h, l, s))
        if not 0.0 <= float(case["h"]) < 360.0:
            o.label("class:hue-out-of-turn")
        if any(abs(g - w) > 1.0 + 1e-9 for g, w in zip(got[:3], want)):
            cls = "hue-beyond-turn" if not -360.0 <= float(case["h"]) <= 720.0 else "hue-negative-or-over-360" if not 0.0 <= float(case["h"]) < 360.0 else "in-range"
            return o.violation("hsl:%s" % cls, "Color(%r) = %r, expected about %r" % (text, got, tuple(round(w, 2) for w in want)))
    if abs(got[3] - aw) > 0.5 + 1e-9:
        return o.violation("alpha", "Color(%r).alpha = %r, expected %r" % (text, got[3], aw))
    return o.ok(nontrivial=True)


def hsl_of(r, g, b):
    h, l, s = colorsys.rgb_to_hls(r / 255.0, g / 255.0, b / 255.0)
    return h, s, l


def check_accessors(case):
    se = lib.L()
    o = core.Obs()
    v = case["value"]
    m = {"r": (v >> 24) & 255, "g": (v >> 16) & 255, "b": (v >> 8) & 255, "a": v & 255}
    c = se.Color("#%08x" % v)
    if rgba_of(c) != (m["r"], m["g"], m["b"], m["a"]):
        return o.violation("hex8", "Color('#%08x') = %r" % (v, rgba_of(c)))

    def consistent(where):
        r, g, b, a = c.red, c.green, c.blue, c.alpha
        if (r, g, b, a) != (m["r"], m["g"], m["b"], m["a"]):
            return o.violation("setter:%s" % where.split()[0], "after %s on #%08x: components %r, expected %r" % (where, v, (r, g, b, a), (m["r"], m["g"], m["b"], m["a"])))
        packs = {
            "rgb": (c.rgb, (r << 16) | (g << 8) | b),
            "rgba": (c.rgba & 0xFFFFFFFF, (r << 24) | (g << 16) | (b << 8) | a),
            "argb": (c.argb, (a << 24) | (r << 16) | (g << 8) | b),
            "bgr": (c.bgr, (b << 16) | (g << 8) | r),
            "hexa": (c.hexa, "#%02x%02x%02x%02x" % (r, g, b, a)),
            "hexrgb": (c.hexrgb, "#%02x%02x%02x" % (r, g, b)),
            "opacity": (round(c.opacity * 255.0), a),
        }
        for name, (got, want) in packs.items():
            if got != want:
                return o.violation("getter:%s" % name, "after %s on #%08x: %s = %r, components say %r" % (where, v, name, got, want))
        back = se.Color(c.hex)
        if not (back == c) or rgba_of(back) != (r, g, b, a):
            return o.violation("hex-roundtrip", "after %s on #%08x: Color(%r) = %r" % (where, v, c.hex, rgba_of(back)))
        return None

    bad = consistent("construction")
    if bad is not None:
        return bad
    for name, arg in case["ops"]:
        o.label("set:%s" % name)
        where = "%s = %r" % (name, arg)
        if name in ("red", "green", "blue", "alpha"):
            setattr(c, name, arg)
            m[name[0]] = clamp(int(arg), 0, 255)
        elif name == "opacity":
            c.opacity = arg
            want = 255.0 * clamp(arg, 0.0, 1.0)
            if abs(c.alpha - want) > 0.5 + 1e-9:
                return o.violation("setter:opacity", "after %s on #%08x alpha = %r, expected %r" % (where, v, c.alpha, want))
            m["a"] = c.alpha
        elif name == "rgb":
            c.rgb = arg
            m.update(r=(arg >> 16) & 255, g=(arg >> 8) & 255, b=arg & 255, a=c.alpha)
        elif name == "bgr":
            c.bgr = arg
            m.update(b=(arg >> 16) & 255, g=(arg >> 8) & 255, r=arg & 255, a=c.alpha)
        elif name == "rgba":
            c.rgba = arg
            m.update(r=(arg >> 24) & 255, g=(arg >> 16) & 255, b=(arg >> 8) & 255, a=arg & 255)
        elif name == "argb":
            c.argb = arg
            m.update(a=(arg >> 24) & 255, r=(arg >> 16) & 255, g=(arg >> 8) & 255, b=arg & 255)
        else:
            h, s, l = hsl_of(m["r"], m["g"], m["b"])
            if name == "hue":
                if s < 0.05 or l < 0.03 or l > 0.97:
                    # the hue of a (nearly) grey colour is not recoverable from 8-bit channels; still must not touch alpha
                    c.hue = arg
                    if c.alpha != m["a"]:
                        return o.violation("setter:hue:alpha", "after %s on #%08x alpha became %r" % (where, v, c.alpha))
                    m.update(r=c.red, g=c.green, b=c.blue)
                    continue
                h = (arg % 360.0) / 360.0
            elif name == "saturation":
                if l < 0.03 or l > 0.97 or (s < 0.05):
                    c.saturation = arg
                    if c.alpha != m["a"]:
                        return o.violation("setter:saturation:alpha", "after %s on #%08x alpha became %r" % (where, v, c.alpha))
                    m.update(r=c.red, g=c.green, b=c.blue)
                    continue
                s = arg
            else:
                l = arg
            setattr(c, name, arg)
            want = tuple(255.0 * x for x in colorsys.hls_to_rgb(h, l, s))
            got = (c.red, c.green, c.blue)
            # 8-bit quantisation of the starting colour limits how well (h, s) are known: allow the spread of the
            # neighbouring quantisation cells
            tol = 1.0 + 1e-9 + quant_spread(m, name, arg)
            if any(abs(g_ - w_) > tol for g_, w_ in zip(got, want)):
                return o.violation("setter:%s" % name, "after %s on #%08x: rgb %r, expected about %r" % (where, v, got, tuple(round(w_, 1) for w_ in want)))
            if c.alpha != m["a"]:
                return o.violation("setter:%s:alpha" % name, "after %s on #%08x alpha became %r (was %r)" % (where, v, c.alpha, m["a"]))
            m.update(r=c.red, g=c.green, b=c.blue)
        bad = consistent(where)
        if bad is not None:
            return bad
    o.nontrivial = not (((v >> 24) & 255) == ((v >> 16) & 255) == ((v >> 8) & 255))
    return o.ok()


def quant_spread(m, name, arg):
    """How far can the target colour move if each 8-bit channel of the starting colour is off by half a step?"""
    base = None
    worst = 0.0
    for dr, dg, db in ((0, 0, 0), (0.5, 0, 0), (-0.5, 0, 0), (0, 0.5, 0), (0, -0.5, 0), (0, 0, 0.5), (0, 0, -0.5)):
        r = clamp(m["r"] + dr, 0, 255)
        g = clamp(m["g"] + dg, 0, 255)
        b = clamp(m["b"] + db, 0, 255)
        h, s, l = hsl_of(r, g, b)
        if name == "hue":
            h = (arg % 360.0) / 360.0
        elif name == "saturation":
            s = arg
        else:
            l = arg
        t = tuple(255.0 * x for x in colorsys.hls_to_rgb(h, l, s))
        if base is None:
            base = t
        else:
            worst = max(worst, max(abs(x - y) for x, y in zip(t, base)))
    return worst
