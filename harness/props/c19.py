"""
C19 - arc-to-Bezier conversion keeps endpoints, continuity and a bounded error.

Case: {"arc": plain arc (A endpoint form or E centre form), "mode": cubic|quad, "n": None|int, "path": None | {"before": [...], "after": [...], "error": e}}
Oracle: validity predicate over the chain: exact ends and joins, true point-to-ellipse distance of sampled points,
        slice midpoints against the arc's own point, monotone improvement under finer subdivision.
"""
import copy as _copy
import math

from .. import core, gen, lib
from . import c02, c08

PROPERTY = "C19"
RULE = (
    "cases are arcs with radii ratio up to 100, any rotation, extents from 1e-3 to 6 pi (three turns) in both directions (centre "
    "form) and endpoint-form arcs of all classes, converted with as_cubic_curves / as_quad_curves at the default and "
    "at explicit subdivision counts, fresh or after having been rotated / scaled / mirrored by a matrix, alone and embedded at a generated position of a path converted with "
    "approximate_arcs_with_cubics/quads(error). Non-trivial = eccentric (ratio > 1.5) rotated arc with negative or "
    "multi-slice sweep; distinct by the case."
)
ASSUMPTIONS = [
    "distance to the ellipse = true Euclidean distance (sampled start + Newton on the ellipse parameter), divided by the larger radius",
    "bounds at the default subdivision (slices of at most 30 degrees): 1e-3 for cubics, 1e-2 for quadratics",
    "zero extent = coincident end points; zero-radius arcs between different points (straight lines with sweep 0, which the "
    "converter drops) are not generated inside paths",
    "finer subdivision: the measured error for 2n slices may exceed the error for n slices only by rounding (1e-9 relative to the radius)",
]
TOLERANCES = {"cubic": 1e-3, "quadratic": 1e-2, "exact ends/joins": 0.0}
MANDATORY_LABELS = {"quick": ["mode:cubic", "mode:quad", "n:default", "n:explicit", "embedded", "embedded:several-arcs", "embedded:zero-extent-arc", "sweep:negative", "sweep:beyond-full-turn", "sweep:1.5-turns-or-more", "sweep:zero", "sweep:tiny", "history:mirrored", "history:rotated-scaled"]}
MANDATORY_LABELS["thorough"] = MANDATORY_LABELS["quick"]


def decode(d):
    if d.chance(2, 8):
        cls, arc = gen.arc_endpoint(d, allow_degenerate=True)
        # keep the ratio of the radii within 100
        if arc[2] != 0 and arc[3] != 0 and (abs(arc[2] / arc[3]) > 100 or abs(arc[3] / arc[2]) > 100):
            arc[3] = arc[2]
    else:
        rx = abs(gen.loguniform(d, -1, 3, False))
        ratio = d.choice([1.0, 1.5, 2.0, 5.0, 10.0, 100.0]) if d.bool() else 10.0 ** d.uniform(0.0, 2.0)
        ry = rx / ratio if d.bool() else rx * ratio
        sweep = d.choice([0.0, 1e-3, 0.01, 0.5, math.pi / 6, math.pi / 6 + 1e-9, 1.0, math.pi / 2, 3.0, math.pi, 4.0, 2 * math.pi, 7.0, 2.5 * math.pi, 3 * math.pi, 4 * math.pi, 5 * math.pi]) if d.bool() else d.uniform(1e-3, 2.5 * math.pi if d.chance(3, 4) else 6 * math.pi)
        if d.bool():
            sweep = -sweep
        arc = ["E", gen.point(d), gen.r6(rx), gen.r6(ry), gen.angle_deg(d), gen.r6(d.uniform(-3.2, 3.2)), sweep]
    case = {"arc": arc, "mode": d.choice(["cubic", "quad"]), "n": None if d.bool() else d.choice([1, 2, 3, 4, 6, 8, 12, 16, 24, 40]), "path": None}
    if d.chance(1, 3):
        # the arc has a history: it was rotated / scaled / mirrored (ratio-preserving maps) before being converted
        case["pre"] = gen.matrix(d, classes=["similarity", "reflection", "antidiagonal", "reflection"])["m"]
    if d.chance(3, 8):
        # the arc embedded in a path among other segments - further arcs and zero-extent arcs included
        def extra(n):
            out = []
            for _ in range(n):
                if d.chance(3, 8):
                    kind, a = gen.arc_endpoint(d, c=gen.small_coord, allow_degenerate=True)
                    if d.chance(1, 3) or a[2] == 0 or a[3] == 0:
                        # coincident end points: zero extent.  (A zero-radius arc between different points is a straight
                        # line with sweep 0; whether "zero extent" covers it is not settled by the statement - not generated)
                        a[7] = list(a[1])
                    out.append(a)
                else:
                    out.append(gen.segment(d, "LQC", c=gen.small_coord)[1])
            return out

        before = [["M", gen.point(d, gen.small_coord)]] + extra(d.below(3))
        case["path"] = {"before": before, "after": extra(d.below(4)), "error": d.choice([0.1, 0.05, 0.25, 0.02, 1.0 / 12.0])}
    return case


def parts(tier):
    n = 3000 if tier == "quick" else 10000
    return [core.Part("arcs", "sampled", lambda: gen.cases(decode, 384), budget=n)]


def ellipse_distance(px, py, cx, cy, rx, ry, rot, gate=None):
    """true Euclidean distance from a point to the ellipse.  Cheap path: the first-order estimate |F| / |grad F| of the
    implicit function; if it is below `gate` it is returned (its relative error is of the order distance x curvature).
    Otherwise: 128 parameter samples, then golden-section refinement of the two best local minima."""
    c, s = math.cos(rot), math.sin(rot)
    dx, dy = px - cx, py - cy
    x, y = c * dx + s * dy, -s * dx + c * dy
    F = (x / rx) ** 2 + (y / ry) ** 2 - 1.0
    gx, gy = 2.0 * x / (rx * rx), 2.0 * y / (ry * ry)
    g = math.hypot(gx, gy)
    if g > 0 and gate is not None:
        est = abs(F) / g
        if est < gate:
            return est
    n = 128
    d2 = lambda t: (rx * math.cos(t) - x) ** 2 + (ry * math.sin(t) - y) ** 2
    vals = [d2(2 * math.pi * i / n) for i in range(n)]
    minima = [i for i in range(n) if vals[i] <= vals[i - 1] and vals[i] <= vals[(i + 1) % n]]
    minima.sort(key=lambda i: vals[i])
    best = min(vals)
    for i in minima[:2]:
        lo, hi = 2 * math.pi * (i - 1) / n, 2 * math.pi * (i + 1) / n
        v = -c08.refine(lambda t: -d2(t), lo, hi, 1.0, iters=40)
        best = min(best, v)
    return math.sqrt(max(best, 0.0))


def chain_error(arc, chain, bound):
    """largest distance of sampled chain points from the arc's ellipse, and largest distance of slice midpoints from
    the arc's own mid-slice point, both relative to the larger radius"""
    cx, cy = arc.center.x, arc.center.y
    rx, ry, rot = arc.rx, arc.ry, float(arc.get_rotation())
    R = max(rx, ry)
    worst = 0.0
    worst_mid = 0.0
    n = len(chain)
    f_arc = c08.fast_eval(arc)
    for i, seg in enumerate(chain):
        f = c08.fast_eval(seg)
        for t in (0.0, 0.15, 0.3, 0.5, 0.7, 0.85, 1.0):
            p = f(t)
            worst = max(worst, ellipse_distance(p[0], p[1], cx, cy, rx, ry, rot, gate=bound * R / 8.0) / R)
        m = f(0.5)
        a = f_arc((i + 0.5) / n)
        worst_mid = max(worst_mid, math.hypot(m[0] - a[0], m[1] - a[1]) / R)
    return worst, worst_mid


def check_chain(o, arc, chain, kind, what):
    se = lib.L()
    want = se.CubicBezier if kind == "cubic" else se.QuadraticBezier
    for i, seg in enumerate(chain):
        if not isinstance(seg, want):
            return o.violation("%s:kind" % what, "element %d of the chain is %s" % (i, type(seg).__name__))
    if lib.xy(chain[0].start) != lib.xy(arc.start):
        return o.violation("%s:start" % what, "chain starts at %r, arc at %r" % (lib.xy(chain[0].start), lib.xy(arc.start)))
    if lib.xy(chain[-1].end) != lib.xy(arc.end):
        return o.violation("%s:end" % what, "chain ends at %r, arc at %r" % (lib.xy(chain[-1].end), lib.xy(arc.end)))
    for i, (a, b) in enumerate(zip(chain, chain[1:])):
        if lib.xy(a.end) != lib.xy(b.start):
            return o.violation("%s:join" % what, "curve %d ends at %r, curve %d starts at %r" % (i, lib.xy(a.end), i + 1, lib.xy(b.start)))
    return None


def check(case):
    se = lib.L()
    o = core.Obs()
    arc = c02.mk_seg(case["arc"])
    if case.get("pre"):
        arc = arc * lib.mk_matrix(case["pre"])
        o.label("history:mirrored" if gen.mat_det(case["pre"]) < 0 else "history:rotated-scaled")
    mode, n = case["mode"], case["n"]
    o.label("mode:%s" % mode, "n:%s" % ("default" if n is None else "explicit"))
    sweep = arc.sweep
    if sweep < 0:
        o.label("sweep:negative")
    if abs(sweep) > 2 * math.pi:
        o.label("sweep:beyond-full-turn")
    if abs(sweep) >= 3 * math.pi:
        o.label("sweep:1.5-turns-or-more")
    if abs(sweep) <= 0.011 and sweep != 0:
        o.label("sweep:tiny")
    conv = (lambda k=None: list(arc.as_cubic_curves(k))) if mode == "cubic" else (lambda k=None: list(arc.as_quad_curves(k)))
    if sweep == 0:
        o.label("sweep:zero")
        chain = conv(None)
        if chain:
            return o.violation("zero-extent-yields-curves", "%r: %d curves for a zero-extent arc" % (case["arc"], len(chain)))
        return o.ok(nontrivial=False)
    bound = 1e-3 if mode == "cubic" else 1e-2
    default_n = int(math.ceil(abs(sweep) / (2 * math.pi / 12.0)))
    chain = conv(n)
    if not chain:
        return o.violation("empty-chain", "%r: no curves for sweep %r" % (case["arc"], sweep))
    bad = check_chain(o, arc, chain, mode, "chain")
    if bad is not None:
        bad.detail = "%r n=%r: %s" % (case["arc"], n, bad.detail)
        return bad
    if n is not None and len(chain) != n:
        return o.violation("slice-count", "%r: asked for %d curves, got %d" % (case["arc"], n, len(chain)))
    err, mid = chain_error(arc, chain, bound)
    ratio = c02.arc_ratio(arc)
    slack = 1e-9 + 1e-15 * ratio * ratio
    if n is None or n >= default_n:
        if err > bound + slack:
            return o.violation("%s:error-bound" % mode, "%r n=%r: chain is %.3g radii from the ellipse (bound %g)" % (case["arc"], n, err, bound))
        if mid > 3 * bound + slack:
            return o.violation("%s:midpoint" % mode, "%r n=%r: slice midpoints are %.3g radii from the arc's own mid-slice points" % (case["arc"], n, mid))
    # finer subdivision does not make it worse
    k = len(chain)
    finer = conv(2 * k)
    bad = check_chain(o, arc, finer, mode, "finer")
    if bad is not None:
        return bad
    err2, mid2 = chain_error(arc, finer, bound)
    if k >= default_n and err2 > err + slack and err2 > bound / 8.0:
        return o.violation("%s:finer-is-worse" % mode, "%r: error %.3g with %d curves, %.3g with %d" % (case["arc"], err, k, err2, 2 * k))
    # embedded in a path
    if case["path"] is not None:
        o.label("embedded")
        spec = case["path"]
        p = se.Path()
        at = None
        for sgm in spec["before"]:
            if sgm[0] == "M":
                p.append(se.Move(None, se.Point(*sgm[1])))
                at = list(sgm[1])
            else:
                s2 = gen.reanchor(sgm, at)
                p.append(lib.mk_segment(s2))
                at = list(s2[-1])
        anchored = arc * se.Matrix.translate(at[0] - arc.start.x, at[1] - arc.start.y)
        p.append(anchored)
        at = [anchored.end.x, anchored.end.y]
        for sgm in spec["after"]:
            s2 = gen.reanchor(sgm, at)
            p.append(lib.mk_segment(s2))
            at = list(s2[-1])
        before = [(_copy.copy(sg), lib.kind_of(sg)) for sg in p]
        narcs = sum(1 for _, k in before if k == "A")
        if narcs >= 2:
            o.label("embedded:several-arcs")
        if any(k == "A" and sg.sweep == 0 for sg, k in before):
            o.label("embedded:zero-extent-arc")
        if mode == "cubic":
            p.approximate_arcs_with_cubics(error=spec["error"])
        else:
            p.approximate_arcs_with_quads(error=spec["error"])
        got = list(p)
        j = 0
        for i, (s0, k0) in enumerate(before):
            if k0 == "A":
                n_exp = int(math.ceil(abs(s0.sweep) / (2 * math.pi * spec["error"])))
                sub = got[j: j + n_exp]
                if len(sub) != n_exp or any(lib.kind_of(x) != ("C" if mode == "cubic" else "Q") for x in sub):
                    return o.violation("path:arc-not-converted", "arc %d of the path (sweep %r) should become %d %s curves; the path now reads %s (was %s)" % (
                        i, s0.sweep, n_exp, mode, "".join(lib.kind_of(x) for x in got), "".join(k for _, k in before)))
                if n_exp:
                    bad = check_chain(o, s0, sub, mode, "path-chain")
                    if bad is not None:
                        return bad
                j += n_exp
            else:
                if j >= len(got):
                    return o.violation("path:segment-lost", "segment %d (%s) is gone; the path now reads %s" % (i, k0, "".join(lib.kind_of(x) for x in got)))
                s1 = got[j]
                if lib.kind_of(s1) != k0 or [lib.xy(x) for _, x in c02.stored_points(s1) if x is not None] != [lib.xy(x) for _, x in c02.stored_points(s0) if x is not None]:
                    return o.violation("path:other-segment-changed", "segment %d (%s) changed by the arc conversion" % (i, k0))
                j += 1
        if j != len(got):
            return o.violation("path:segment-count", "%d segments expected after the conversion, %d found (%s)" % (j, len(got), "".join(lib.kind_of(x) for x in got)))
        if any(lib.kind_of(x) == "A" for x in got):
            return o.violation("path:arc-left", "an Arc is still in the path after the conversion: %s" % "".join(lib.kind_of(x) for x in got))
        # (the harness moved the arc to its place by a translation: rounding of that move is relative to where it was)
        Sp = max(lib.scale_of([lib.xy(x.end) for x in got]), abs(arc.start.x), abs(arc.start.y), abs(arc.end.x), abs(arc.end.y))
        for a, b in zip(got, got[1:]):
            # (exact equality at every chain's own ends is checked above; elsewhere the path is as connected as it was)
            if lib.kind_of(b) != "M" and not core.pclose(lib.xy(a.end), lib.xy(b.start), 1e-12 * Sp):
                return o.violation("path:disconnected", "%s ends at %r, next %s starts at %r" % (lib.kind_of(a), lib.xy(a.end), lib.kind_of(b), lib.xy(b.start)))
    o.nontrivial = ratio > 1.5 and (sweep < 0 or len(chain) > 1)
    return o.ok()
