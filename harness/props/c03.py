"""
C03 - parsed documents give each shape its spec-defined absolute geometry.

Case: a document AST (harness/docgen.py) with its configuration.
Oracle: the reference renderer of harness/ref/docref.py: every rendered shape's chapter-10 decomposition in its own user
        space mapped through caller transform x viewport transforms x ancestor transforms x use translate; the library
        side is [abs(Path(e)) for e in svg.elements() if isinstance(e, Shape)].  Metamorphic: reify=True and reify=False
        give the same geometry.
"""
import io

from .. import core, docgen, gen, lib
from ..ref import docref
from . import c06

PROPERTY = "C03"
RULE = (
    "cases are SVG documents generated from the vocabulary svg, g, defs, use (incl. nested use, use of groups, targets "
    "defined before or after, inside or outside defs), rect/circle/ellipse/line/polyline/polygon/path, nested svg "
    "with x/y/width/height/viewBox/preserveAspectRatio, depth <= 5, <= 22 elements, transforms on any element, "
    "unit-bearing (px/pt/pc/in) and percentage attributes, display:none subtrees, crossed with ppi, caller "
    "width/height (numbers or lengths) and caller transform, each parsed with reify=True and reify=False. "
    "Non-trivial = depth >= 2, a transformed ancestor and at least one of {use, nested svg with viewBox, percentage or "
    "unit-bearing attribute}; distinct by the document text + configuration."
)
ASSUMPTIONS = [
    "not generated (counted where they arise): percentage r and percentage rx/ry of rect (reference length disputed), shapes "
    "missing a required size attribute, negative sizes, x/y on the outermost svg, nested svg with x/y but no viewBox, mm/cm "
    "units (C12's inch-constant finding), use references into display:none subtrees",
    "when neither the caller nor the document fixes the size percentages refer to, the generator supplies a caller size "
    "(the library's default of 1000 is not a specified value)",
]
TOLERANCES = {"straight edges": "1e-9 * S", "arcs": "(1e-9 + conditioning) * S"}
MANDATORY_LABELS = {"quick": ["has:use", "has:nested-svg", "has:percent", "has:units", "has:display-none", "has:defs", "use:of-group", "use:nested", "use:forward", "config:caller-size", "config:caller-transform", "percent-after-nested-svg"]}
MANDATORY_LABELS["thorough"] = MANDATORY_LABELS["quick"]


def decode(d):
    return docgen.build_doc(d, {})


MIXED_UNIT_WITNESSES = [
    '<svg xmlns="http://www.w3.org/2000/svg" viewBox="50 -17 10 40"><circle id="a" cx="83" cy="30" r="20" transform="translate(1in,0)"/><rect id="b" width="5" height="5"/></svg>',
    '<svg xmlns="http://www.w3.org/2000/svg" xmlns:xlink="http://www.w3.org/1999/xlink" width="50" height="50"><defs><rect id="r" width="5" height="5"/></defs><g transform="translate(10,20)"><use id="u" x="-0.6in" xlink:href="#r"/></g></svg>',
]


def mixed_unit_cases():
    for t in MIXED_UNIT_WITNESSES:
        yield {"witness": t}


def check_mixed_units(case):
    """an inch-family translation under a px-family one: the element vanishes or the parse raises (C04's finding)"""
    se = lib.L()
    o = core.Obs()
    o.label("class:inch-family-translate")
    try:
        svg = se.SVG.parse(io.StringIO(case["witness"]))
    except ValueError as e:
        if core.library_frame(e.__traceback__) == "__iadd__":
            return o.known("KF-TRANSFORM-MIXED-UNITS", "SVG.parse raised ValueError for %s" % case["witness"])
        raise
    n = len(shapes_of(svg))
    want = 2 if "circle" in case["witness"] else 1
    if n != want:
        return o.known("KF-TRANSFORM-MIXED-UNITS", "%d of %d shapes rendered for %s" % (n, want, case["witness"]))
    return o.ok(nontrivial=True)


def parts(tier):
    n = 2500 if tier == "quick" else 12000
    return [
        core.Part("documents", "sampled", lambda: gen.cases(decode, 1024), budget=n),
        core.Part("mixed-units", "exhaustive", mixed_unit_cases, check=check_mixed_units),
    ]


def features(doc, o):
    root = doc["root"]
    depth = 0
    seen_nested = False
    index = {n["id"]: (n, p) for n, p in docgen.walk(root)}
    pos = {nid: i for i, nid in enumerate(index)}
    feats = set()
    for n, parents in docgen.walk(root):
        depth = max(depth, len(parents))
        a = n["attrs"]
        if n["tag"] == "use" and n.get("href"):
            feats.add("has:use")
            t = index[n["href"]][0]
            if t["tag"] == "g":
                feats.add("use:of-group")
            if t["tag"] == "use" or any(c["tag"] == "use" for c, _ in docgen.walk(t)):
                feats.add("use:nested")
            if pos[t["id"]] > pos[n["id"]]:
                feats.add("use:forward")
        if n["tag"] == "svg" and parents:
            feats.add("has:nested-svg")
            if "viewBox" in a:
                feats.add("has:nested-viewbox")
            seen_nested = True
        if n["tag"] == "defs":
            feats.add("has:defs")
        if a.get("display") == "none":
            feats.add("has:display-none")
        for k, v in a.items():
            if k in ("transform", "points", "d", "viewBox", "preserveAspectRatio", "display"):
                continue
            v = str(v)
            if v.endswith("%"):
                feats.add("has:percent")
                if seen_nested and not any(p["tag"] == "svg" and p is not root for p in parents) and n["tag"] != "svg":
                    feats.add("percent-after-nested-svg")
            elif v[-1:].isalpha():
                feats.add("has:units")
        if "transform" in a and n["children"]:
            feats.add("has:transformed-ancestor")
    cfg = doc["config"]
    if cfg.get("width") is not None:
        feats.add("config:caller-size")
    if cfg.get("transform"):
        feats.add("config:caller-transform")
    for f in feats:
        o.label(f)
    return feats, depth


def parse(doc, reify, text=None):
    se = lib.L()
    cfg = doc["config"]
    kw = {"reify": reify, "ppi": cfg["ppi"]}
    if cfg.get("width") is not None:
        kw["width"] = cfg["width"]
    if cfg.get("height") is not None:
        kw["height"] = cfg["height"]
    if cfg.get("transform"):
        kw["transform"] = cfg["transform"]
    return se.SVG.parse(io.StringIO(text if text is not None else docgen.to_xml(doc)), **kw)


def shapes_of(svg):
    se = lib.L()
    return [e for e in svg.elements() if isinstance(e, se.Shape)]


def compare_shapes(o, got, want, what):
    se = lib.L()
    if len(got) != len(want):
        return o.violation("%s:shape-count" % what, "library renders %d shapes %r, the document renders %d %r" % (
            len(got), [getattr(e, "id", None) for e in got], len(want), [w["id"] for w in want]))
    for i, (e, w) in enumerate(zip(got, want)):
        if e.id != w["id"]:
            return o.violation("%s:order" % what, "shape %d is %r, document order gives %r (path %r)" % (i, e.id, w["id"], w["idpath"]))
        segs = list(abs(se.Path(e)))
        S = max(1e-3, lib.scale_of(w["segs"]))
        M = w["M"]
        SA = max(S * gen.mat_norm(M) * 2 + abs(M[4]) + abs(M[5]), 1e-3)
        bad = c06.compare_with_reference(o, segs, w["segs"], M, SA, what, arc_rel=1e-9, line_rel=1e-9)
        if bad is not None:
            sig = ">".join([w["tag"]])
            bad.bucket = "%s:%s" % (bad.bucket, w["tag"])
            bad.detail = "shape %r (%s, path %r): %s" % (w["id"], w["tag"], ">".join(w["idpath"]), bad.detail)
            return bad
    return None


def check(case):
    o = core.Obs()
    doc = case
    feats, depth = features(doc, o)
    want, notes = docref.render(doc)
    if "zero-size-svg" in notes:
        o.label("has:zero-size-svg")
        notes.discard("zero-size-svg")
    if notes:
        return o.excluded(sorted(notes)[0])
    text = docgen.to_xml(doc)
    for reify in (True, False):
        svg = parse(doc, reify, text)
        got = shapes_of(svg)
        bad = compare_shapes(o, got, want, "reify=%s" % reify)
        if bad is not None:
            bad.detail = "%s\n  document: %s\n  config: %r" % (bad.detail, text, doc["config"])
            return bad
    o.nontrivial = depth >= 2 and "has:transformed-ancestor" in feats and bool(feats & {"has:use", "has:nested-viewbox", "has:percent", "has:units"})
    return o.ok()
