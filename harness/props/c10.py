"""
C10 - document parsing never aborts on a bad element; siblings are unaffected.

Case: {"doc": document AST, "faults": [[element id, attribute, malformed text, fault type], ...]}
Oracle: (1) SVG.parse in the default error mode returns a tree and raises nothing; (2) differential / metamorphic:
        let D' be the document with every offending element removed (with its subtree and every use instance that
        reaches it); every shape D' renders must appear in parse(D), in the same relative order, with identical
        geometry, fill, stroke and stroke width.
"""
import copy as _copy
import io

from .. import core, docgen, gen, lib
from . import c03
from ..ref import pathref

PROPERTY = "C10"
RULE = (
    "cases are C03 documents with a fault plan: 1..3 attribute values on graphics, container or use elements replaced "
    "by malformed text from a per-type dictionary (transform, paint, length, points, viewBox, path data, stroke "
    "width) and/or a use reference retargeted to a missing id, itself, an ancestor or a mutual cycle. Non-trivial = at "
    "least one fault on an element that is followed by a shape outside its subtree; distinct by document + plan."
)
ASSUMPTIONS = [
    'a style sheet may sit inside a container whose only faults are its own transform / nested-svg size, with no other fault inside and no use around: if that container is skipped (its shapes render in the intact document and none renders now) its rules must not apply outside; if it is read leniently and rendered, its rules are read too (document-wide effect of a sheet) and either reading is accepted',
    "faults are placed in attribute values only (not in style sheet text, whose effect is legitimately global)",
    "the offending element itself may be skipped or rendered up to the error; nothing is asserted about it or its subtree",
    "identical geometry = abs(Path(shape)) sampled pointwise at 1e-12 * scale (same code, same inputs on both sides)",
    "termination: a parse that has not returned after 30 s of wall clock (10^4 times the typical 3 ms) is reported as a hang",
    "a transform that combines an inch-family translation with a px-family one is C04's known finding "
    "KF-TRANSFORM-MIXED-UNITS; it is not used as a fault",
]
TOLERANCES = {"geometry": "1e-12 * S"}
FAULT_TYPES = ["transform", "paint", "length", "points", "viewBox", "d", "stroke-width", "href-missing", "href-self", "href-ancestor", "href-cycle", "svg-zero", "opacity"]
MANDATORY_LABELS = {"quick": ["fault:%s" % f for f in FAULT_TYPES] + ["on:shape", "on:container", "on:use", "faults:1", "faults:2+", "offender-path-rendered", "style-in-faulty-container:skipped"]}
MANDATORY_LABELS["thorough"] = MANDATORY_LABELS["quick"]

# every transform function with every argument count from 0 to 7 (the counts a function accepts are simply no fault),
# also with a trailing comma and with text in place of the last argument
_TRANSFORM_ARITIES = []
for _name in ("matrix", "translate", "translateX", "translateY", "scale", "scaleX", "scaleY", "rotate", "skew", "skewX", "skewY"):
    for _n in range(0, 8):
        _args = ["10", "50", "3", "2", "1", "7", "4"][:_n]
        _TRANSFORM_ARITIES.append("%s(%s)" % (_name, ", ".join(_args)))
        if _n >= 1:
            _TRANSFORM_ARITIES.append("%s(%s,)" % (_name, ", ".join(_args)))
            _TRANSFORM_ARITIES.append("translate(1,1) %s(%s)" % (_name, ", ".join(_args[:-1] + ["oops"])))

BAD = {
    "transform": _TRANSFORM_ARITIES + ["matrix(1,2,3)", "rotate(a)", "scale(", "!!!", "translate(1,,2)", "rotate()", "matrix(a,b,c,d,e,f)", "skewX()", "translate()", "scale()", "matrix()", "rotate(30", "translatex()", "skew()", "scaley(x)", "matrix(1 0 0 1 0)", "rotate(1e999)"],
    "paint": ["rgb(1e999%,0%,0%)", "rgba(1,2,3,1e999)", "hsl(1e999,50%,50%)", "rgb(-1e999%,200%,50%)", "rgb(1.5,2,3)", "#12", "rgb(", "url(#nope)", "notacolor", "#ggg", "rgb(1,2)", "hsl(1,2,3)", "rgb(1,2,3,4,5)", "#", "rgba(300,-1,0,x)", "hsl(a,50%,50%)", ""],
    "length": ["2em", "3ex", "1.5rem", "4vw", "abc", "1e", "--5", "5 5", "1e999", "", "12qq", "NaN", "inf", "-", ".", "1..2", "5%%"],
    "points": ["1,2 3", "a", "1,2,,3", "", "1 2 3 4 5", "1e999,0 2,2", ",,,", "1,2;3,4"],
    "viewBox": ["0 0 0 0", "a b c d", "1 2 3", "", "0 0 -5 -5", "0,0,10", "1e999 0 1 1", "0 0 10 0"],
    "d": ["M 0,0 L 10,10 z 5", "M 0,0 1 z", "M 3,3 L 5,5 L 9,1 L", "M 1,1 C 1,1 2,2 z 3", "M0,0 Q 1,1 z 7 L 2,2", "M 2,2 L 4,4 T", "M 1 2 L", "L 5 5", "M 1 1 A 1 1 0 2 0 3 3", "M0,0 h", "z", "Q 1 1 2 2", "M 1 2 C 3", "M 1 2 X 4", "h 5", "a 1 1 0 0 1 5 5", "M 1", "t 1 1", "M0,0 A 1 z", "m", "M 1 2 L 3 4 5", "é", "M 1e999 0 L 1 1", "C 3 2 z 0 1 3 5 v 5", "q 1 1 z", "c 1 2 3 4 z L 1 1"],
    "stroke-width": ["abc", "-1", "1e999", "", "1 2", "5%%", "2em"],
    "opacity": ["inf", "1e999", "-1e999", "abc", "nan", "", "1,5", "200%"],
}
LENGTH_ATTRS = {"text": ["x", "y"], "rect": ["x", "y", "width", "height", "rx", "ry"], "circle": ["cx", "cy", "r"], "ellipse": ["cx", "cy", "rx", "ry"], "line": ["x1", "y1", "x2", "y2"], "use": ["x", "y"], "svg": ["x", "y", "width", "height"]}


def decode(d):
    doc = docgen.build_doc(d, {"max_elements": 16})
    root = doc["root"]
    # text is part of the vocabulary too: it is not a shape (it never appears among the compared shapes) but it is parsed,
    # painted and transformed like one
    for k in range(d.choice([0, 0, 1, 1, 2])):
        t = {"tag": "text", "id": "t%d" % k, "attrs": {"x": docgen.fmtn(docgen.num(d, 0, 50)), "y": docgen.fmtn(docgen.num(d, 0, 50)), "fill": d.choice(docgen.PALETTE)}, "children": [], "cls": None}
        holders = [n for n, _ in docgen.walk(root) if n["tag"] in ("svg", "g")]
        h = d.choice(holders)
        h["children"].insert(d.below(len(h["children"]) + 1), t)
    nodes = [(n, parents) for n, parents in docgen.walk(root) if n["tag"] != "defs"]
    faults = []
    for _ in range(d.choice([1, 1, 1, 2, 2, 3])):
        n, parents = d.choice(nodes)
        tag = n["tag"]
        kinds = ["transform", "paint", "stroke-width", "opacity"]
        if tag in LENGTH_ATTRS:
            kinds += ["length", "length"]
        if tag in ("polyline", "polygon"):
            kinds += ["points", "points"]
        if tag == "svg":
            kinds += ["viewBox", "viewBox"]
        if tag == "path":
            kinds += ["d", "d", "d"]
        if tag == "use":
            kinds += ["href-missing", "href-self", "href-ancestor", "href-cycle"] * 2
        kind = d.choice(kinds)
        if kind.startswith("href-"):
            if kind == "href-missing":
                target = d.choice(["nope", "e9999", ""])
            elif kind == "href-self":
                target = n["id"]
            elif kind == "href-ancestor":
                anc = [p["id"] for p in parents if p["tag"] in ("g", "svg")]
                target = (anc[-1] if d.bool() else d.choice(anc)) if anc else n["id"]  # (the nearest one half of the time)
            else:
                others = [m for m, _ in nodes if m["tag"] == "use" and m is not n]
                if others:
                    o2 = d.choice(others)
                    faults.append([o2["id"], "href", n["id"], kind])
                    target = o2["id"]
                else:
                    target = n["id"]
            faults.append([n["id"], "href", target, kind])
            if kind == "href-ancestor" and parents and d.chance(3, 4):
                # a second use right beside it that reaches the same ancestor: what the first expansion leaves behind
                # (the set of references being expanded) is what the second one starts from
                twin = {"tag": "use", "id": "tw%d" % len(faults), "attrs": {}, "children": [], "cls": None, "href": n.get("href")}
                sibs = parents[-1]["children"]
                sibs.insert(sibs.index(n) + d.below(2), twin)
                nodes.append((twin, parents))
                faults.append([twin["id"], "href", target, kind])
            continue
        if kind == "length":
            attr = d.choice(LENGTH_ATTRS[tag])
        elif kind == "paint":
            attr = d.choice(["fill", "stroke"])
        elif kind == "opacity":
            attr = d.choice(["fill-opacity", "stroke-opacity", "opacity"])
            if attr != "opacity" and d.bool():
                # (the opacity only matters when there is a paint to fold it into)
                n["attrs"].setdefault("fill" if attr == "fill-opacity" else "stroke", d.choice(docgen.PALETTE))
        else:
            attr = kind
        faults.append([n["id"], attr, d.choice(BAD[kind]), kind])
        if kind == "d" and d.bool():
            # two malformed paths in one document: whatever state parsing the first one leaves behind (an error raised
            # in the middle of a command, after a close, after a dangling letter) must not reach the second
            others = [m for m, _ in nodes if m["tag"] == "path" and m is not n]
            if others:
                m = d.choice(others)
                first, second = (n, m) if d.bool() else (m, n)
                faults[-1] = [first["id"], "d", d.choice(BAD["d"][:6]), "d"]
                faults.append([second["id"], "d", d.choice(BAD["d"][:8]), "d"])
    # a nested svg disabled by a zero size, followed by siblings that use percentages: the state the parser keeps
    # per viewport (size, inherited values) must come back exactly as it was before the disabled element
    nested = [(n, parents) for n, parents in nodes if n["tag"] == "svg" and parents and "viewBox" in n["attrs"]]
    if nested and d.chance(3, 8):
        n, parents = d.choice(nested)
        attr, value = d.choice([("width", "abc"), ("height", "0"), ("viewBox", "0 0 0 10"), ("viewBox", "5 5 10 0"), ("width", "0")])
        faults.append([n["id"], attr, value, "svg-zero"])
        sibs = parents[-1]["children"]
        later = [c for c in sibs[sibs.index(n) + 1:] if c["tag"] in ("rect", "ellipse", "line")]
        for c in later[:2]:
            key = {"rect": d.choice(["width", "x", "height"]), "ellipse": d.choice(["rx", "cy"]), "line": d.choice(["x2", "y2"])}[c["tag"]]
            c["attrs"][key] = d.choice(["50%", "25%", "100%", "12.5%"])
    # a style sheet inside a container that is not rendered because its own transform is in error (or, for a nested svg,
    # its size): a skipped element contributes nothing, its rules included - outside it the document is as if the
    # container were not there.  (Containers with other faults are rendered leniently and their rules are read, which is
    # the document-wide effect a style sheet legitimately has; no sheet is placed there.)
    kinds_of = lambda n: set(f[3] for f in faults if f[0] == n["id"])
    faulty = [n for n, parents in nodes if parents and n["tag"] in ("g", "svg") and kinds_of(n) and kinds_of(n) <= set(["transform", "svg-zero"])
              and not any(p["tag"] == "defs" for p in parents)]
    def plain(h):
        # nothing else going on around the container: no other fault inside it, and no use reaches it, its content or
        # an element around it (a use renders its target a second time, with the rules read so far)
        inside = set(m["id"] for m, _ in docgen.walk(h))
        around = set(p["id"] for n, parents in nodes if n is h for p in parents)
        if any(f[0] in inside and f[0] != h["id"] for f in faults):
            return False
        targets = dict((n["id"], n.get("href")) for n, _ in nodes if n["tag"] == "use")
        targets.update((f[0], f[2]) for f in faults if f[1] == "href")  # (a fault may have retargeted the use)
        return not any(t in inside or t in around or u in inside for u, t in targets.items())

    faulty = [h for h in faulty if plain(h)]
    if faulty and d.chance(2, 3):
        h = d.choice(faulty)
        rules = d.choice(["rect{fill:red;stroke:blue} path{fill:lime}", "*{stroke-width:7;stroke:#123456}", "ellipse,circle,line,polygon,polyline{fill:#abcdef;stroke:red}", "rect,path,ellipse{transform:translate(5px,5px)}"])
        h["children"].insert(d.below(len(h["children"]) + 1), {"tag": "style", "id": "st1", "attrs": {}, "children": [], "cls": None, "text": rules})
    return {"doc": doc, "faults": faults}


def parts(tier):
    n = 5000 if tier == "quick" else 8000
    out = [core.Part("documents", "sampled", lambda: gen.cases(decode, 1024), budget=n)]
    if tier == "thorough":
        out.append(core.Part("atheris", "fuzz", {"corpus": "corpus/C10", "dict": "corpus/C10.dict", "runs": 40000, "max_len": 400}))
    return out


def apply_faults(doc, faults):
    bad = _copy.deepcopy(doc)
    index = {n["id"]: n for n, _ in docgen.walk(bad["root"])}
    for nid, attr, value, kind in faults:
        n = index[nid]
        if attr == "href":
            n["href"] = value
            n["href_raw"] = True
        else:
            n["attrs"][attr] = value
    return bad


def remove_offenders(doc, offenders, keep_style=False):
    """D': the document without the offending elements, their subtrees, and every use that reaches one of them
    (keep_style: a style sheet inside a removed subtree stays where the subtree was - its rules are document-wide)"""
    clean = _copy.deepcopy(doc)
    root = clean["root"]
    if root["id"] in offenders:
        root["children"] = []
        return clean
    index = {n["id"]: n for n, _ in docgen.walk(root)}
    removed = set()
    for nid in offenders:
        for n, _ in docgen.walk(index[nid]):
            removed.add(n["id"])
    changed = True
    while changed:
        changed = False
        for n, _ in docgen.walk(root):
            if n["tag"] == "use" and n["id"] not in removed and n.get("href") in removed:
                removed.add(n["id"])
                changed = True
            # a use that reaches a removed element through the subtree of its target
            if n["tag"] == "use" and n["id"] not in removed and n.get("href") in index:
                if any(m["id"] in removed for m, _ in docgen.walk(index[n["href"]])):
                    removed.add(n["id"])
                    changed = True

    def prune(n):
        kept = []
        for c in n["children"]:
            if c["id"] not in removed:
                kept.append(c)
            elif keep_style:
                kept.extend(m for m, _ in docgen.walk(c) if m["tag"] == "style")
        n["children"] = kept
        for c in n["children"]:
            prune(c)

    prune(root)
    return clean


def snapshot(e):
    """value snapshot of a rendered shape; None if the shape cannot be sampled (a faulty element rendered up to the
    error may be a fragment - nothing is asserted about it, it just cannot match a wanted shape)"""
    try:
        return _snapshot(e)
    except core.HarnessError:
        raise
    except Exception:
        return None


def _snapshot(e):
    se = lib.L()
    pts = []
    for s in abs(se.Path(e)):
        k = lib.kind_of(s)
        if k == "M":
            pts.append((k, [lib.xy(s.end)]))
        else:
            pts.append((k, [lib.xy(s.point(t)) for t in (0.0, 0.3, 0.7, 1.0)]))
    fill = None if (e.fill is None or e.fill.value is None) else e.fill.value
    stroke = None if (e.stroke is None or e.stroke.value is None) else e.stroke.value
    m = e.transform
    det = abs(float(m.a) * float(m.d) - float(m.b) * float(m.c))
    return {"id": e.id, "pts": pts, "fill": fill, "stroke": stroke, "width": e.stroke_width * (det ** 0.5) if isinstance(e.stroke_width, (int, float)) else (None if e.stroke_width is None else str(e.stroke_width))}


def same(a, b):
    if a is None or b is None:
        return False
    if a["id"] != b["id"] or a["fill"] != b["fill"] or a["stroke"] != b["stroke"]:
        return False
    if isinstance(a["width"], str) or isinstance(b["width"], str):  # an unresolved stroke width (only an offender can have one)
        if a["width"] != b["width"]:
            return False
    elif (a["width"] is None) != (b["width"] is None) or (a["width"] is not None and abs(a["width"] - b["width"]) > 1e-9 * max(abs(a["width"]), 1e-3)):
        return False
    if [k for k, _ in a["pts"]] != [k for k, _ in b["pts"]]:
        return False
    S = max(1e-3, lib.scale_of([p for _, ps in a["pts"] for p in ps]))
    for (_, pa), (_, pb) in zip(a["pts"], b["pts"]):
        for p, q in zip(pa, pb):
            if p is None or q is None or not core.pclose(p, q, 1e-12 * S):
                return False
    return True


def to_text(doc):
    text = docgen.to_xml(doc)
    return text


def check(case):
    se = lib.L()
    o = core.Obs()
    if "fields" in case and "doc" not in case:
        return fuzz_check(case)  # a saved input of the atheris part
    doc, faults = case["doc"], case["faults"]
    bad = apply_faults(doc, faults)
    index = {n["id"]: (n, p) for n, p in docgen.walk(doc["root"])}
    offenders = set(f[0] for f in faults)
    o.label("faults:%s" % ("1" if len(offenders) == 1 else "2+"))
    for nid, attr, value, kind in faults:
        o.label("fault:%s" % kind)
        tag = index[nid][0]["tag"]
        o.label("on:%s" % ("use" if tag == "use" else "container" if tag in ("g", "svg") else "shape"))
    text = to_text(bad)
    try:
        with core.time_limit(30):
            svg = c03.parse(bad, True, text)
    except core.Timeout:
        return o.violation("hang:%s" % "+".join(sorted(set(f[3] for f in faults))), "SVG.parse did not return within 30 s (it normally takes milliseconds)\n  faults: %r\n  document: %s" % (faults, text))
    except RecursionError as e:
        where = core.library_frame(e.__traceback__) or "?"
        return o.violation("raises:RecursionError@%s" % where, "SVG.parse raised RecursionError\n  faults: %r\n  document: %s" % (faults, text))
    except Exception as e:
        where = core.library_frame(e.__traceback__)
        if where is None:
            raise
        kinds = sorted(set(f[3] for f in faults))
        return o.violation("raises:%s@%s" % (type(e).__name__, where), "SVG.parse raised %s: %s\n  faults: %r\n  document: %s" % (type(e).__name__, str(e)[:100], faults, text))
    # (None is what the parser returns when the outermost svg itself is not rendered, e.g. display:none)
    got = [snapshot(e) for e in c03.shapes_of(svg)] if svg is not None else []
    clean = remove_offenders(doc, offenders)
    ctext = to_text(clean)
    want = [snapshot(e) for e in c03.shapes_of(c03.parse(clean, True, ctext))]
    # an offending path is skipped or rendered up to the error: if it is rendered, what it draws is the longest valid
    # prefix of its data (segment kinds in order) - nothing another element of the document left behind
    single = {}
    for nid, attr, value, kind in faults:
        single.setdefault(nid, []).append((attr, kind, value))
    if svg is not None:
        for e in c03.shapes_of(svg):
            fl = single.get(e.id)
            if not fl or len(fl) != 1 or fl[0][1] != "d" or not isinstance(e, se.Path):
                continue
            value = fl[0][2]
            ref = pathref.interpret(value)
            if value.lstrip()[:1] not in ("M", "m") or ref.nonfinite:
                continue  # path fragments (C09's known findings) and overflowing numbers
            have = "".join(lib.kind_of(sg) for sg in e)
            expect = "".join(sg["k"] for sg in ref.segments)
            o.label("offender-path-rendered")
            if have != expect:
                return o.violation("offender-path:not-the-valid-prefix", "path %r with d=%r is rendered as %s (%s), the valid prefix of its data is %s\n  faults: %r\n  document: %s" % (
                    e.id, value, have, e.d(), expect, faults, text))
    def compare(want, ctext):
        i = 0
        for w in want:
            while i < len(got) and not same(got[i], w):
                i += 1
            if i >= len(got):
                present = [g["id"] for g in got if g is not None]
                kind = "missing" if w["id"] not in present else "changed"
                kinds = "+".join(sorted(set(f[3] for f in faults)))
                return o.violation("sibling-%s:%s" % (kind, kinds), "shape %r outside the faulty subtrees is %s: faults %r\n  faulty document: %s\n  without the offenders: %s\n  rendered ids: %r" % (
                    w["id"], kind, faults, text, ctext, present))
            i += 1
        return None

    verdict = compare(want, ctext)
    holder = next((n for n, _ in docgen.walk(doc["root"]) if any(ch["tag"] == "style" for ch in n["children"])), None)
    if holder is not None:
        # The container holds a style sheet and its own transform (or size) is in error.  Some such values are read
        # leniently and the container is rendered - then its rules are read too, and rules are document-wide; a container
        # that is skipped contributes nothing at all.  Skipped = shapes inside it that the intact document renders, and
        # none of them rendered now.
        inside = set(m["id"] for m, _ in docgen.walk(holder))
        present = set(g["id"] for g in got if g is not None)
        normally = set(s_["id"] for s_ in (snapshot(e) for e in c03.shapes_of(c03.parse(doc, True, to_text(doc)))) if s_ is not None)
        skipped = bool(inside & normally) and not (inside & present)
        o.label("style-in-faulty-container:%s" % ("skipped" if skipped else "rendered-or-undecided"))
        if verdict is not None and not skipped:
            clean2 = remove_offenders(doc, offenders, keep_style=True)
            ctext2 = to_text(clean2)
            verdict = compare([snapshot(e) for e in c03.shapes_of(c03.parse(clean2, True, ctext2))], ctext2)
        elif verdict is not None:
            verdict.bucket = "skipped-container-rules-applied:" + verdict.bucket.split(":", 1)[-1]
    if verdict is not None:
        return verdict
    o.nontrivial = len(want) >= 1
    return o.ok()


# ---- atheris target (thorough tier) --------------------------------------------------------------------------------
# A fixed skeleton whose attribute values come from the fuzz bytes, so that coverage guidance reaches the value parsers
# instead of dying in XML well-formedness.  The root and the last element (the sentinel) are never fuzzed: whatever the
# other elements' attributes are, the parse must return and the sentinel must come out unchanged.

FUZZ_FIELDS = [
    ("g", "transform"), ("g", "fill"), ("g", "style"), ("r", "transform"), ("r", "x"), ("r", "width"), ("r", "rx"), ("r", "stroke-width"),
    ("p", "d"), ("p", "transform"), ("p", "stroke"), ("u", "href"), ("u", "x"), ("u", "transform"), ("l", "points"), ("l", "fill"),
    ("s", "viewBox"), ("s", "width"), ("s", "preserveAspectRatio"), ("c", "r"), ("c", "cx"),
    ("r", "fill-opacity"), ("r", "fill"), ("c", "stroke-opacity"), ("c", "stroke"), ("t", "transform"), ("t", "fill"), ("t", "x"), ("s", "x"),
]


def fuzz_decode(data):
    if not data:
        return None
    parts = bytes(data).split(b"\xff")
    fields = {}
    for (el, attr), raw in zip(FUZZ_FIELDS, parts):
        if raw[:1] == b"\x00" or not raw:
            continue  # attribute absent
        text = raw.decode("latin-1")
        text = "".join(ch for ch in text if ch == "\t" or ch == "\n" or " " <= ch)  # XML 1.0 forbids most control characters
        fields["%s.%s" % (el, attr)] = text
    return {"fields": fields}


def fuzz_document(fields):
    from xml.sax.saxutils import quoteattr

    def attrs(el):
        out = []
        for k, v in fields.items():
            e, a = k.split(".", 1)
            if e == el:
                out.append(" %s=%s" % ("xlink:href" if a == "href" else a, quoteattr(v)))
        return "".join(out)

    return (
        '<svg xmlns="http://www.w3.org/2000/svg" xmlns:xlink="http://www.w3.org/1999/xlink" width="100" height="100">'
        '<g id="g1"%s><rect id="r1" y="1" height="2"%s/><path id="p1"%s/></g>'
        '<use id="u1"%s/><polyline id="l1"%s/><svg id="s1"%s><circle id="c1"%s/></svg><text id="t1"%s>t</text>'
        '<rect id="sentinel" x="1" y="2" width="3" height="4" fill="red" stroke="blue" stroke-width="2"/></svg>'
    ) % (attrs("g"), attrs("r"), attrs("p"), attrs("u"), attrs("l"), attrs("s"), attrs("c"), attrs("t"))


def fuzz_check(case):
    se = lib.L()
    o = core.Obs()
    text = fuzz_document(case["fields"])
    o.label("fault:fuzz")
    try:
        with core.time_limit(30):
            svg = se.SVG.parse(io.StringIO(text))
    except core.Timeout:
        return o.violation("hang:fuzz", "SVG.parse did not return within 30 s\n  document: %s" % text)
    except RecursionError as e:
        return o.violation("raises:RecursionError@%s" % (core.library_frame(e.__traceback__) or "?"), "document: %s" % text)
    except Exception as e:
        where = core.library_frame(e.__traceback__)
        if where is None:
            raise
        if isinstance(e, ValueError) and where == "__iadd__" and any(u in text for u in ("in", "mm", "cm")):
            return o.known("KF-TRANSFORM-MIXED-UNITS", "SVG.parse raised ValueError for %s" % text)
        return o.violation("raises:%s@%s" % (type(e).__name__, where), "SVG.parse raised %s: %s\n  document: %s" % (type(e).__name__, str(e)[:100], text))
    shapes = [e for e in svg.elements() if isinstance(e, se.Rect) and e.id == "sentinel"] if svg is not None else []
    # (a fuzzed use may legitimately point at the sentinel and render a second instance of it, before the element itself)
    # (the reference is read leniently: whatever the first character of the href is, the rest names the target)
    referenced = text.count("sentinel") - 1
    if len(shapes) < 1 or len(shapes) > 1 + referenced:
        return o.violation("sibling-missing:fuzz", "the sentinel after the faulty elements is rendered %d times\n  document: %s" % (len(shapes), text))
    s = shapes[-1]
    bb = s.bbox()
    fill = None if s.fill is None else s.fill.value
    stroke = None if s.stroke is None else s.stroke.value
    if bb is None or any(abs(a - b) > 1e-9 for a, b in zip(bb, (1.0, 2.0, 4.0, 6.0))) or fill != 0xFF0000FF or stroke != 0x0000FFFF or abs(s.stroke_width - 2.0) > 1e-9:
        return o.violation("sibling-changed:fuzz", "the sentinel came out as bbox %r fill %r stroke %r width %r\n  document: %s" % (bb, fill, stroke, s.stroke_width, text))
    o.nontrivial = len(case["fields"]) >= 1
    return o.ok()
