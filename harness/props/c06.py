"""
C06 - basic shapes are interchangeable with their SVG 2 (chapter 10) equivalent paths.

Case: {"kind": rect|circle|ellipse|line|polyline|polygon, "attrs": {...}, "route": kw|args|dict, "A": matrix}
Oracle: the chapter 10 decomposition written out by the harness (incl. the rx/ry auto-and-clamp rules) built into
        plain segments; arcs through the F.6 reference of C05; the matrix applied by harness arithmetic.
"""
import copy as _copy
import math

from .. import core, gen, lib
from ..ref import arcref
from . import c02, c08

PROPERTY = "C06"
RULE = (
    "cases are the six basic shapes with generated parameters (positions, sizes, rx/ry given / omitted / zero / "
    "over-large / percent, point lists of 0..8 points with repeats), constructed from keyword values, positional "
    "arguments or an attribute dictionary of strings, crossed with the matrix classes and with a history on one object "
    "(none / length() and point() asked, then reify() / length() and point() asked, then @= matrix). Non-trivial = non-degenerate "
    "shape with a non-similarity transform, or a rounded rect whose radii were auto-completed or clamped; distinct by "
    "the case."
)
ASSUMPTIONS = [
    'the positional form shape(geometry..., matrix) is exercised with one Matrix object given to two shapes (stage 7), when all geometry values of the case are plain numbers',
    "SVG 2 10.2-10.7 equivalent paths; rect radii: an omitted radius takes the other one, both are clamped to half the "
    "side, a zero radius squares the corners; percentages of rx refer to the width, of ry to the height",
    "Path(shape.d()) passes through the path-data text: straight edges within 2e-11 scale-relative, arcs at the six "
    "significant digits the arc writer keeps (known finding KF-ARC-D-6DIGITS of C07)",
    "lengths are compared like for like (the lazily transformed forms with each other, the reified path forms with each "
    "other) and only for straight-edged shapes; lengths of arcs are C15's subject (KF-SUBDIVISION-LENGTH)",
    "Circle/Ellipse own transformed decomposition under non-conformal matrices: KF-ROUNDSHAPE-TRANSFORMED",
]
TOLERANCES = {"straight edges": "1e-12 * S", "curved edges": "1e-9 * S", "through d()": "2e-11 * S (lines), 1e-5 * S (arcs)"}
RX_CELLS = ["omitted", "zero", "normal", "over", "percent"]
MANDATORY_LABELS = {"quick": ["kind:%s" % k for k in ("rect", "circle", "ellipse", "line", "polyline", "polygon")] + ["route:kw", "route:args", "route:dict", "degenerate", "history:reify", "history:matmul", "route:center="] + ["rxry:%s/%s" % (a, b) for a in RX_CELLS for b in RX_CELLS if not (a == "percent" and b == "percent")]}
MANDATORY_LABELS["thorough"] = MANDATORY_LABELS["quick"]


def pos(d):
    return gen.small_coord(d)


def size(d):
    return abs(gen.loguniform(d, -1.0, 2.5, False))


def decode(d):
    kind = d.choice(["rect", "rect", "circle", "ellipse", "line", "polyline", "polygon"])
    a = {}
    cells = None
    if kind == "rect":
        w, h = size(d), size(d)
        a = {"x": pos(d), "y": pos(d), "width": w, "height": h}
        cells = []
        for key, side in (("rx", w), ("ry", h)):
            cell = d.choice(RX_CELLS)
            if cell == "omitted":
                pass
            elif cell == "zero":
                a[key] = 0.0
            elif cell == "normal":
                a[key] = gen.r6(side * d.uniform(0.05, 0.45))
            elif cell == "over":
                a[key] = gen.r6(side * d.uniform(0.55, 3.0))
            else:
                a[key] = "%d%%" % d.choice([5, 10, 25, 40, 50, 80])
            cells.append(cell)
        if d.chance(1, 12):
            a[d.choice(["width", "height"])] = 0.0
    elif kind == "circle":
        a = {"cx": pos(d), "cy": pos(d), "r": size(d) if not d.chance(1, 12) else 0.0}
    elif kind == "ellipse":
        a = {"cx": pos(d), "cy": pos(d), "rx": size(d), "ry": size(d) if not d.chance(1, 12) else 0.0}
    elif kind == "line":
        a = {"x1": pos(d), "y1": pos(d), "x2": pos(d), "y2": pos(d)}
        if d.chance(1, 8):
            a[d.choice(["x1", "y1", "x2", "y2"])] = d.choice([2.5, 7.25, -1.5, 3.0]) * 10.0 ** d.choice([-10, -20, -7, -5, -13])
    else:
        n = d.choice([0, 1, 2, 3, 3, 4, 5, 8])
        pts = [gen.point(d, gen.small_coord) for _ in range(n)]
        if n >= 3 and d.chance(1, 4):
            pts[d.below(n)] = list(pts[d.below(n)])  # a repeated point
        if n >= 1 and d.chance(1, 8):
            # a coordinate that is written in exponent form (residue of a computation): 2.5E-10, 7.25E-20
            pts[d.below(n)][d.below(2)] = d.choice([2.5, 7.25, -1.5, 3.0]) * 10.0 ** d.choice([-10, -20, -7, -5, -13])
        a = {"points": pts}
    case = {"kind": kind, "attrs": a, "cells": cells, "route": d.choice(["kw", "args", "dict"]), "A": gen.matrix(d)}
    case["history"] = d.choice([None, "reify", "matmul"])
    case["center_form"] = d.choice([None, "tuple", "text", "point", "complex"]) if kind in ("circle", "ellipse") else None
    return case


def parts(tier):
    n = 2500 if tier == "quick" else 20000
    return [core.Part("shapes", "sampled", lambda: gen.cases(decode, 256), budget=n)]


# ---- construction --------------------------------------------------------------------------------------------------


def fmt(v):
    return v if isinstance(v, str) else repr(v)


def positional_geometry(case):
    """the leading positional arguments of the shape, when the case gives all of them as plain numbers"""
    kind, a = case["kind"], case["attrs"]
    keys = {"rect": ["x", "y", "width", "height", "rx", "ry"], "circle": ["cx", "cy", "r", "r"], "ellipse": ["cx", "cy", "rx", "ry"], "line": ["x1", "y1", "x2", "y2"]}.get(kind)
    if keys is None or any(k not in a or isinstance(a[k], str) for k in keys):
        return None
    return [a[k] for k in keys]


def build(case):
    se = lib.L()
    kind, a, route = case["kind"], case["attrs"], case["route"]
    cls = {"rect": se.Rect, "circle": se.Circle, "ellipse": se.Ellipse, "line": se.SimpleLine, "polyline": se.Polyline, "polygon": se.Polygon}[kind]
    if kind in ("polyline", "polygon"):
        pts = a["points"]
        if route == "kw":
            return cls(points=[tuple(p) for p in pts])
        if route == "args":
            return cls(*[tuple(p) for p in pts])
        return cls({"points": " ".join("%r,%r" % (p[0], p[1]) for p in pts)})
    if route == "dict":
        return cls({k: fmt(v) for k, v in a.items()})
    if route == "kw":
        if kind in ("circle", "ellipse") and case.get("center_form"):
            # the documented center= keyword, in each form a Point accepts
            rest = dict((k, v) for k, v in a.items() if k not in ("cx", "cy"))
            c = (a["cx"], a["cy"])
            form = case["center_form"]
            center = c if form == "tuple" else ("%r,%r" % c) if form == "text" else se.Point(*c) if form == "point" else complex(*c)
            return cls(center=center, **rest)
        return cls(**a)
    if kind == "rect":
        args = [a["x"], a["y"], a["width"], a["height"]]
        if "rx" in a or "ry" in a:
            args.append(a.get("rx"))
            if "ry" in a:
                args.append(a["ry"])
        return cls(*args)
    if kind == "circle":
        return cls(a["cx"], a["cy"], a["r"])
    if kind == "ellipse":
        return cls(a["cx"], a["cy"], a["rx"], a["ry"])
    return cls(a["x1"], a["y1"], a["x2"], a["y2"])


# ---- reference decomposition (SVG 2 chapter 10) -----------------------------------------------------------------------


def resolve_radius(v, side):
    if v is None:
        return None
    if isinstance(v, str):
        return float(v[:-1]) / 100.0 * side
    return float(v)


def rect_radii(a):
    w, h = a["width"], a["height"]
    rx, ry = resolve_radius(a.get("rx"), w), resolve_radius(a.get("ry"), h)
    if rx is None and ry is None:
        return 0.0, 0.0
    if rx is None:
        rx = ry
    if ry is None:
        ry = rx
    rx, ry = min(rx, w / 2.0), min(ry, h / 2.0)
    if rx == 0 or ry == 0:
        return 0.0, 0.0
    return rx, ry


def reference(case):
    """-> list of plain segments (M/L/A/Z) in the shape's own user space; [] for a shape that is not rendered"""
    kind, a = case["kind"], case["attrs"]
    if kind == "rect":
        x, y, w, h = a["x"], a["y"], a["width"], a["height"]
        if w == 0 or h == 0:
            return []
        rx, ry = rect_radii(a)
        if rx == 0:
            return [["M", [x, y]], ["L", [x, y], [x + w, y]], ["L", [x + w, y], [x + w, y + h]], ["L", [x + w, y + h], [x, y + h]], ["Z", [x, y + h], [x, y]]]
        A = lambda s, e: ["A", s, rx, ry, 0.0, 0, 1, e]
        p = [[x + rx, y], [x + w - rx, y], [x + w, y + ry], [x + w, y + h - ry], [x + w - rx, y + h], [x + rx, y + h], [x, y + h - ry], [x, y + ry]]
        return [["M", p[0]], ["L", p[0], p[1]], A(p[1], p[2]), ["L", p[2], p[3]], A(p[3], p[4]), ["L", p[4], p[5]], A(p[5], p[6]), ["L", p[6], p[7]], A(p[7], p[0]), ["Z", p[0], p[0]]]
    if kind in ("circle", "ellipse"):
        cx, cy = a["cx"], a["cy"]
        rx = a["r"] if kind == "circle" else a["rx"]
        ry = a["r"] if kind == "circle" else a["ry"]
        if rx == 0 or ry == 0:
            return []
        p = [[cx + rx, cy], [cx, cy + ry], [cx - rx, cy], [cx, cy - ry]]
        A = lambda s, e: ["A", s, rx, ry, 0.0, 0, 1, e]
        return [["M", p[0]], A(p[0], p[1]), A(p[1], p[2]), A(p[2], p[3]), A(p[3], p[0]), ["Z", p[0], p[0]]]
    if kind == "line":
        return [["M", [a["x1"], a["y1"]]], ["L", [a["x1"], a["y1"]], [a["x2"], a["y2"]]]]
    pts = a["points"]
    if not pts:
        return []
    out = [["M", pts[0]]]
    for p, q in zip(pts, pts[1:]):
        out.append(["L", p, q])
    if kind == "polygon":
        out.append(["Z", pts[-1], pts[0]])
    return out


def ref_point(seg, t):
    k = seg[0]
    if k == "M":
        return tuple(seg[1])
    if k in ("L", "Z"):
        s, e = seg[1], seg[2]
        return (s[0] + t * (e[0] - s[0]), s[1] + t * (e[1] - s[1]))
    if k == "Q":
        u = 1.0 - t
        return tuple(u * u * seg[1][i] + 2 * u * t * seg[2][i] + t * t * seg[3][i] for i in (0, 1))
    if k == "C":
        u = 1.0 - t
        return tuple(u * u * u * seg[1][i] + 3 * u * u * t * seg[2][i] + 3 * u * t * t * seg[3][i] + t * t * t * seg[4][i] for i in (0, 1))
    _, s, rx, ry, rot, fa, fs, e = seg
    if s == e or rx == 0 or ry == 0:
        return (s[0] + t * (e[0] - s[0]), s[1] + t * (e[1] - s[1]))
    c = arcref.endpoint_to_centre(s[0], s[1], rx, ry, rot, fa, fs, e[0], e[1])
    if t == 0:
        return tuple(s)
    if t == 1:
        return tuple(e)
    return c.point(t)


TS = [0.0, 0.25, 0.5, 0.75, 1.0]


def compare_with_reference(o, got, ref, M, S, what, arc_rel=1e-9, line_rel=1e-12):
    kinds = [lib.kind_of(s) for s in got]
    want_kinds = [s[0] for s in ref]
    if kinds != want_kinds:
        return o.violation("%s:kinds" % what, "segments %s, chapter 10 gives %s" % ("".join(kinds), "".join(want_kinds)))
    for i, (g, r) in enumerate(zip(got, ref)):
        k = r[0]
        rel = arc_rel if k == "A" else line_rel
        tol = rel * S
        if k == "A" and min(r[2], r[3]) > 0:
            amp = (max(r[2], r[3]) / min(r[2], r[3])) * c02.cond(M)
            c = arcref.endpoint_to_centre(r[1][0], r[1][1], r[2], r[3], r[4], r[5], r[6], r[7][0], r[7][1])
            arel = rel
            rr = max(r[2], r[3])
            if c is not None:
                rr = max(c.rx, c.ry)
                if c.lam >= 1.0 - 1e-12:
                    arel = max(rel, 1e-6)  # radii scaled up: square root of a rounding-noise radicand (see C05)
            tol = (arel + 1e-15 * amp * amp) * max(S, rr * gen.mat_norm(M) * 2)
        for t in (TS if k != "M" else [1.0]):
            p = lib.xy(g.point(t)) if k != "M" else lib.xy(g.end)
            w = gen.mat_apply(M, ref_point(r, t))
            if p is None or not core.pclose(p, w, tol):
                return o.violation("%s:geometry:%s" % (what, k), "segment %d (%s) at t=%r: %r, chapter 10 decomposition gives %r" % (i, k, t, p, w))
    return None


def check(case):
    se = lib.L()
    o = core.Obs()
    kind = case["kind"]
    o.label("kind:%s" % kind, "route:%s" % case["route"], "mat:%s" % case["A"]["cls"])
    if case["cells"]:
        o.label("rxry:%s/%s" % tuple(case["cells"]))
    if case.get("center_form") and case["route"] == "kw":
        o.label("route:center=")
    A = case["A"]["m"]
    mA = lib.mk_matrix(A)
    shape = build(case)
    ref = reference(case)
    S = max(lib.scale_of(case["attrs"]), 1e-3)
    if kind == "rect" and ref:
        rx, ry = rect_radii(case["attrs"])
        if abs(shape.rx - rx) > 1e-12 * S or abs(shape.ry - ry) > 1e-12 * S:
            return o.violation("rect:radius-table:%s/%s" % tuple(case["cells"]), "Rect %r resolved rx, ry = %r, %r; SVG 2 gives %r, %r" % (case["attrs"], shape.rx, shape.ry, rx, ry))
    # 1. untransformed decomposition
    got = list(shape.segments(transformed=False))
    if not ref:
        o.label("degenerate")
        tshape = shape * mA
        obs = {"segments()": list(tshape.segments()), "d()": tshape.d(), "Path(shape)": list(se.Path(tshape)), "bbox()": tshape.bbox()}
        if got or obs["segments()"] or obs["d()"] not in ("", None) or obs["Path(shape)"] or obs["bbox()"] is not None:
            return o.violation("degenerate-renders", "%s %r should produce no segments: %r" % (kind, case["attrs"], {k: (v if not isinstance(v, list) else len(v)) for k, v in obs.items()}))
        return o.ok(nontrivial=False)
    bad = compare_with_reference(o, got, ref, gen.IDENTITY, S, "segments(False)")
    if bad is not None:
        bad.detail = "%s %r via %s: %s" % (kind, case["attrs"], case["route"], bad.detail)
        return bad
    # 2. transformed forms against the matrix applied to the reference
    tshape = shape * mA
    SA = max(S * gen.mat_norm(A) * 2 + abs(A[4]) + abs(A[5]), 1e-3)
    known = None
    forms = [
        ("abs(Path(shape))", lambda: list(abs(se.Path(tshape))), False),
        ("Path(shape).segments()", lambda: list(se.Path(tshape).segments(transformed=True)), False),
        ("shape.segments()", lambda: list(tshape.segments(transformed=True)), True),
        ("abs(shape).segments()", lambda: list(abs(tshape).segments(transformed=True)), True),
    ]
    for what, f, own in forms:
        bad = compare_with_reference(o, f(), ref, A, SA, what)
        if bad is not None:
            if own and kind in ("circle", "ellipse") and c02.roundshape_known_class(A):
                known = bad
                continue
            bad.detail = "%s %r x %r: %s" % (kind, case["attrs"], A, bad.detail)
            return bad
    # 3. through the text: Path(shape.d())
    try:
        text = tshape.d()
        via = list(se.Path(text))
        ratio = max([max(r[2], r[3]) / min(r[2], r[3]) for r in ref if r[0] == "A"] + [1.0]) * c02.cond(A)
        # six significant digits of radii and rotation, amplified by the eccentricity of the written arc
        bad = compare_with_reference(o, via, ref, A, SA, "Path(shape.d())", arc_rel=5e-6 * (1.0 + ratio), line_rel=2e-11)
    except Exception:
        raise
    if bad is not None:
        if kind in ("circle", "ellipse") and c02.roundshape_known_class(A):
            known = bad
        else:
            bad.detail = "%s %r x %r, d() = %r: %s" % (kind, case["attrs"], A, text, bad.detail)
            return bad
    # 4. equality and bounding boxes
    pshape = se.Path(tshape)
    if not (tshape == pshape) or (tshape != pshape):
        return o.violation("equality:shape==Path(shape)", "%s %r x %r is not equal to Path(shape)" % (kind, case["attrs"], A))
    if not (tshape == abs(pshape)):
        return o.violation("equality:shape==abs(Path(shape))", "%s %r x %r is not equal to its reified path" % (kind, case["attrs"], A))
    moved = any(not core.pclose(gen.mat_apply(A, ref_point(r, 1.0)), ref_point(r, 1.0), 1e-6 * S) for r in ref)
    if moved and (tshape == se.Path(shape)):
        return o.violation("equality:ignores-transform", "%s %r x %r compares equal to its untransformed path" % (kind, case["attrs"], A))
    want_box = c08.union([c08.exact_box(s, A)[0] for s in shape.segments(transformed=False) if lib.kind_of(s) != "M"])
    if want_box is None:  # a single point: only the move exists
        want_box = c08.union([c08.exact_box(s, A)[0] for s in shape.segments(transformed=False)])
    boxes = {"Path(shape).bbox()": pshape.bbox(), "abs(Path(shape)).bbox()": abs(pshape).bbox()}
    if not (kind in ("circle", "ellipse") and c02.roundshape_known_class(A)):
        boxes["shape.bbox()"] = tshape.bbox()
        boxes["Path(shape.d()).bbox()"] = se.Path(tshape.d()).bbox()
    extra = c08.arc_extra(list(shape.segments(transformed=False)), A, SA)
    for what, b in boxes.items():
        tol = (5e-6 * (1.0 + ratio) if "d()" in what else 1e-7) * SA + extra
        if b is None or any(abs(x - y) > tol for x, y in zip(b, want_box)):
            return o.violation("bbox:%s" % what.split("(")[0], "%s of %s %r x %r = %r, geometry spans %r" % (what, kind, case["attrs"], A, b, want_box))
    # 5. lengths, like for like.  Shapes with arcs are measured by chord subdivision (KF-SUBDIVISION-LENGTH): two
    #    forms of the same arc may differ by the width of that finding's band, straight shapes must agree closely.
    curved = any(r[0] == "A" for r in ref)
    if not curved:
        e = 1e-6 * max(SA, 1.0)
        l_lazy = [tshape.length(error=e), se.Path(shape).length(error=e)]
        if abs(l_lazy[0] - l_lazy[1]) > 1e-9 * max(l_lazy + [SA]):
            return o.violation("length:lazy-forms", "shape.length() = %r, Path(untransformed shape).length() = %r" % tuple(l_lazy))
        l_baked = [abs(pshape).length(error=e), se.Path(abs(pshape).d()).length(error=e)]
        if abs(l_baked[0] - l_baked[1]) > 1e-9 * max(l_baked) + 1e-10 * SA:
            return o.violation("length:baked-forms", "abs(Path(shape)).length() = %r, Path(d()).length() = %r" % tuple(l_baked))
        true_len = sum(math.hypot(gen.mat_apply(A, r[2])[0] - gen.mat_apply(A, r[1])[0], gen.mat_apply(A, r[2])[1] - gen.mat_apply(A, r[1])[1]) for r in ref if r[0] in ("L", "Z"))
        if abs(l_baked[0] - true_len) > 1e-9 * max(true_len, SA):
            return o.violation("length:straight-shape", "abs(Path(shape)).length() = %r, the polygon measures %r" % (l_baked[0], true_len))
    # 6. histories on one object: measure, realise the transform in place, measure again.  The shape must stay
    #    interchangeable with the path built from it afterwards (caches filled by the first measurement included).
    hist = case.get("history")
    if hist:
        o.label("history:%s" % hist)
        e = 1e-6 * max(SA, 1.0)
        h = build(case)
        if hist == "matmul":
            first = h.length(error=e), lib.xy(h.point(0.3))
            h @= mA
        else:
            h *= mA
            first = h.length(error=e), lib.xy(h.point(0.3))
            h.reify()
        ph = se.Path(h)
        if not (h == ph):
            return o.violation("history:%s:equality" % hist, "%s %r: after length(), point() and realising %r in place the shape is not equal to Path(shape)" % (kind, case["attrs"], A))
        la, lb = h.length(error=e), ph.length(error=e)
        if la is None or lb is None or abs(la - lb) > 1e-9 * max(abs(la or 0), abs(lb or 0), SA):
            return o.violation("history:%s:length" % hist, "%s %r: length() was asked (%r), then %r was realised in place: shape.length() = %r, Path(shape).length() = %r" % (kind, case["attrs"], first[0], A, la, lb))
        # (Circle/Ellipse.point() is a different function - the transformed point at an angle - and is not compared)
        for t in (0.2, 0.55, 0.9) if kind not in ("circle", "ellipse") else ():
            pa, pb = lib.xy(h.point(t)), lib.xy(ph.point(t))
            if pa is None or pb is None or not core.pclose(pa, pb, 1e-9 * SA):
                return o.violation("history:%s:point" % hist, "%s %r: point() was asked, then %r was realised in place: shape.point(%r) = %r, Path(shape).point(%r) = %r" % (kind, case["attrs"], A, t, pa, t, pb))
    # 7. the documented positional form  shape(geometry..., matrix): two shapes are given one Matrix object, one of them
    #    is changed in place; the other still is the shape under that matrix, and the caller's matrix still is M
    pos = positional_geometry(case)
    if pos is not None:
        o.label("positional-matrix")
        cls = getattr(se, {"rect": "Rect", "circle": "Circle", "ellipse": "Ellipse", "line": "SimpleLine"}[kind])
        mobj = lib.mk_matrix(A)
        coeffs = lambda m: (m.a, m.b, m.c, m.d, m.e, m.f)
        before = coeffs(mobj)
        one, two = cls(*(pos + [mobj])), cls(*(pos + [mobj]))
        fresh = cls(*(pos + [lib.mk_matrix(A)]))
        one.reify()
        one *= lib.mk_matrix([2.0, 0.0, 0.0, 0.5, 1.0, -3.0])
        if coeffs(mobj) != before:
            return o.violation("positional-matrix:caller's-matrix-modified", "%s(%r, M) then reify() and *= N: the caller's M = %r is now %r" % (kind, pos, before, coeffs(mobj)))
        from . import c17
        a_, b_ = c17.snapshot(abs(se.Path(two))), c17.snapshot(abs(se.Path(fresh)))
        if a_ != b_:
            return o.violation("positional-matrix:shared", "%s(%r, M): after another shape built with the same Matrix object was changed in place it reads %r, a fresh one %r" % (kind, pos, a_[:2], b_[:2]))
    if known is not None:
        return o.known("KF-ROUNDSHAPE-TRANSFORMED", known.detail)
    auto = case["cells"] and (("omitted" in case["cells"]) != (case["cells"][0] == case["cells"][1] == "omitted") or "over" in case["cells"])
    o.nontrivial = (not gen.matrix_is_similarity(A)) or bool(auto)
    return o.ok()
