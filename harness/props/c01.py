"""
C01 - path data is interpreted exactly as the SVG path grammar prescribes.

Oracle: the reference interpreter of harness/ref/pathref.py (written from the specification, own lexer).
Case:   {"d": text}
"""
import itertools

from .. import core, gen, lib
from ..ref import pathref

PROPERTY = "C01"
RULE = (
    "cases are path-data strings: (pairs) every ordered pair of the 20 command letters after an initial move, "
    "x3 numeric templates x2 tokenisations, enumerated exhaustively; (sampled) grammar-directed strings of 1..12 "
    "commands rendered through generated number spellings and separators. Non-trivial = the reference interpreter "
    "finds at least two drawn commands and at least one of {relative command, implicit repetition, smooth command, "
    "close followed by non-move, separator-free token adjacency, packed arc flags, segment-completing z}; "
    "distinct by the text."
)
ASSUMPTIONS = [
    'arc radii are any number (SVG 2 grammar); a negative radius stands for its absolute value (F.6.6) - one generated radius in five is written with a minus sign',
    "number tokens follow the CSS/SVG number production (no trailing-dot spelling) and denote Python float(token)",
    "arc segments are compared for plumbing only (start, radii, rotation, flags, end reach the public Arc "
    "constructor unchanged); the F.6 arithmetic itself is C05's subject",
    "a 'z' after a complete argument group is the ordinary close path; after an incomplete group (or directly "
    "after the command letter) it completes the segment with the subpath start (SVG 2 9.3.4)",
]
TOLERANCES = {"point": "1e-12 * scale (both sides perform the same float additions)", "arc": "1e-9 * scale pointwise"}
MANDATORY_LABELS = {
    "quick": ["adjacent-tokens", "packed-flags", "implicit-repetition", "smooth-after-other-degree", "close-then-nonmove", "segment-completing-z"],
    "thorough": ["adjacent-tokens", "packed-flags", "implicit-repetition", "smooth-after-other-degree", "close-then-nonmove", "segment-completing-z", "leading-relative-move", "consecutive-moves", "exponent", "leading-dot"],
}

LETTERS = "MmZzLlHhVvCcSsQqTtAa"
TEMPLATES = [
    ["3", "4", "1", "2", "5", "-6", "7"],
    ["-1.5", ".5", "2e1", "-.25", "10", "0", "8.125"],
    ["0", "0", "100", "50", "-20", "30", "1"],
]


def _cmd_text(ch, nums, compact):
    up = ch.upper()
    if up == "Z":
        return ch
    n = gen.ARGC[up]
    vals = list(itertools.islice(itertools.cycle(nums), n))
    if up == "A":
        vals[0] = vals[0].lstrip("-") if vals[0].lstrip("-") not in ("0", ".0") else "4"
        vals[1] = vals[1].lstrip("-") if vals[1].lstrip("-") not in ("0", ".0") else "3"
        vals[3] = "1"
        vals[4] = "0"
    if compact:
        out = ch
        for i, v in enumerate(vals):
            if i > 0:
                prev = vals[i - 1]
                flag_prev = up == "A" and i - 1 in (3, 4)
                flag_cur = up == "A" and i in (3, 4)
                if flag_prev or (not flag_cur and gen.can_abut(prev, v)):
                    sep = ""
                else:
                    sep = ","
                out += sep
            out += v
        return out
    return ch + " " + " ".join(vals)


def pair_cases():
    for a, b in itertools.product(LETTERS, LETTERS):
        for ti, tpl in enumerate(TEMPLATES):
            for compact in (False, True):
                rot = tpl[ti:] + tpl[:ti]
                d = "M 1,2 " + _cmd_text(a, tpl, compact) + (" " if not compact else "") + _cmd_text(b, rot, compact)
                yield {"d": d}


def decode(d):
    gen.ARC_NEGATIVE_RADII = True  # F.6.6: a negative radius stands for its absolute value
    try:
        return {"d": gen.path_text(d, min_cmds=1, max_cmds=11)[0], "ctor": d.choice(lib.CTOR_FORMS)}
    finally:
        gen.ARC_NEGATIVE_RADII = False


def sampled():
    return gen.cases(decode, 512)


def parts(tier):
    n = 8000 if tier == "quick" else 40000
    return [
        core.Part("pairs", "exhaustive", pair_cases),
        core.Part("sampled", "sampled", sampled, budget=n),
    ]


def compare_segments(o, ref_segments, path, S, arcs="plumbing"):
    """Compare the library path with the reference segment list; returns an Outcome on mismatch, None if equal."""
    se = lib.L()
    tol = 1e-12 * S
    if len(path) != len(ref_segments):
        return o.violation("segment-count", "library %d segments, reference %d: %s" % (len(path), len(ref_segments), [lib.kind_of(s) for s in path]))
    prev_end = None
    sub_start = None
    for i, (seg, ref) in enumerate(zip(path, ref_segments)):
        k = lib.kind_of(seg)
        if k != ref["k"]:
            return o.violation("segment-kind", "segment %d is %s, reference says %s (command %r)" % (i, k, ref["k"], ref.get("cmd")))
        end = lib.xy(seg.end)
        start = lib.xy(seg.start)
        if end is None:
            return o.violation("non-numeric-point", "segment %d (%s) end is %r" % (i, k, seg.end))
        if not core.pclose(end, ref["e"], tol):
            return o.violation("end-point:%s" % ref.get("cmd", "?").upper(), "segment %d %s end %r, reference %r" % (i, k, end, ref["e"]))
        if k != "M" or ref["s"] is not None:
            if ref["s"] is not None:
                if start is None:
                    return o.violation("start-missing", "segment %d (%s) has start %r" % (i, k, seg.start))
                if k != "M" and not core.pclose(start, ref["s"], tol):
                    return o.violation("start-point:%s" % ref.get("cmd", "?").upper(), "segment %d %s start %r, reference %r" % (i, k, start, ref["s"]))
        # connectivity recomputed from public fields
        if k != "M" and prev_end is not None and start is not None and not core.pclose(start, prev_end, tol):
            return o.violation("connectivity", "segment %d starts at %r but its predecessor ended at %r" % (i, start, prev_end))
        if k == "M":
            sub_start = end
        if k == "Z" and sub_start is not None and not core.pclose(end, sub_start, tol):
            return o.violation("close-target", "close %d ends at %r, its subpath started at %r" % (i, end, sub_start))
        if k == "Q":
            c = lib.xy(seg.control)
            if c is None or not core.pclose(c, ref["c"], tol):
                why = "smooth" if ref.get("smooth") else "explicit"
                return o.violation("control:%s:%s" % (ref.get("cmd", "?").upper(), why), "segment %d Q control %r, reference %r" % (i, c, ref["c"]))
        elif k == "C":
            c1, c2 = lib.xy(seg.control1), lib.xy(seg.control2)
            if c1 is None or not core.pclose(c1, ref["c1"], tol):
                why = "smooth" if ref.get("smooth") else "explicit"
                return o.violation("control1:%s:%s" % (ref.get("cmd", "?").upper(), why), "segment %d C control1 %r, reference %r" % (i, c1, ref["c1"]))
            if c2 is None or not core.pclose(c2, ref["c2"], tol):
                return o.violation("control2:%s" % ref.get("cmd", "?").upper(), "segment %d C control2 %r, reference %r" % (i, c2, ref["c2"]))
        elif k == "A":
            twin = se.Arc(se.Point(*ref["s"]), abs(ref["rx"]), abs(ref["ry"]), ref["rot"], ref["fa"], ref["fs"], se.Point(*ref["e"]))
            a = lib.sample(seg)
            b = lib.sample(twin)
            atol = 1e-9 * max(S, abs(ref["rx"]), abs(ref["ry"]))
            for pa, pb in zip(a, b):
                if pa is None and pb is None:
                    continue  # both evaluations overflow (coordinates beyond ~1e150): the plumbing is the same
                if pa is None or pb is None or not core.pclose(pa, pb, atol):
                    return o.violation("arc-plumbing", "segment %d arc differs from Arc(%r, %r, %r, %r, %r, %r, %r): %r vs %r" % (
                        i, ref["s"], abs(ref["rx"]), abs(ref["ry"]), ref["rot"], ref["fa"], ref["fs"], ref["e"], pa, pb))
        prev_end = end
    return None


NONTRIVIAL_FEATURES = {
    "relative", "implicit-repetition", "smooth-reflecting", "smooth-after-other-degree", "smooth-after-noncurve",
    "close-then-nonmove", "adjacent-tokens", "packed-flags", "segment-completing-z", "move-extra-pairs",
}


def check(case):
    se = lib.L()
    o = core.Obs()
    d = case["d"]
    ref = pathref.interpret(d)
    if ref.error is not None:
        raise core.HarnessError("generator produced non-conforming path data %r: %r" % (d, ref.error))
    if ref.nonfinite:
        return o.excluded("non-finite number")
    for f in ref.info:
        o.label(f)
    drawn = [s for s in ref.segments if s["k"] != "M"]
    # command pair classes
    letters = [c for _, c in ref.spans]
    for a, b in zip(letters, letters[1:]):
        o.label("pair:%s%s" % (a, b))
    path = lib.path_from_text(d, case.get("ctor", "pos"))
    o.label("ctor:%s" % case.get("ctor", "pos"))
    S = lib.scale_of([[s.get("s"), s.get("e"), s.get("c"), s.get("c1"), s.get("c2")] for s in ref.segments])
    bad = compare_segments(o, ref.segments, path, S)
    if bad is not None:
        return bad
    o.nontrivial = len(drawn) >= 2 and bool(ref.info & NONTRIVIAL_FEATURES)
    return o.ok()
