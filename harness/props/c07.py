"""
C07 - serialising a path to path data and re-parsing it reproduces the path.

Case: {"route": "prog", "segs": plain path} | {"route": "parse", "d": text};  + "relative": None|False|True,
      "smooth": None|False|True, "sub": i
Oracle: round trip.  q = Path(p.d(relative, smooth)) must have the same kinds and, pointwise, the same geometry within
        the 12-significant-digit bound; for arcs a two-sided oracle (sharp: the written tokens; fidelity: the points).
"""
import copy as _copy
import math

from .. import core, gen, lib
from ..ref import pathref
from . import c02

PROPERTY = "C07"
RULE = (
    "cases are paths built programmatically (1..3 subpaths, open/closed, subpaths begun without a move, all segment "
    "kinds, arcs incl. scaled-up radii and near-half-turn extents, near-coincident points) or parsed from generated "
    "path data (so that as-parsed relative/smooth flags exist), crossed with relative in {None, False, True} and "
    "smooth in {None, False, True}; d(), str() and Subpath.d(). Non-trivial = at least one curve and (relative "
    "output, or a smooth-eligible pair, or an arc); distinct by the case."
)
ASSUMPTIONS = [
    "decoys include a curve directly after a curve of the other degree whose control mirrors that curve's last control (not a smooth continuation: S/T reflect only a curve of their own degree)",
    "coordinates are written with 12 significant digits: lines and Beziers must come back within n x 1e-11 x scale, n = "
    "number of relative offsets accumulated so far",
    "arcs, sharp side: the written radii, rotation, flags and end point must be the arc's own (radii/rotation at the six "
    "significant digits the writer keeps, flags exactly, end point at 12 digits)",
    "arcs, fidelity side: the re-parsed arc must stay within the deviation that 12-digit rounding explains given the "
    "arc's conditioning; a deviation beyond that but inside the six-digit envelope is known finding KF-ARC-D-6DIGITS "
    "(pinned by test_generation.py::test_svg_example14)",
]
TOLERANCES = {"lines/Beziers": "(n + 1) * 1e-11 * S", "arc fidelity": "R * ratio * min(delta / h, sqrt(2 delta)) * 8 with delta = 1e-11 (12 digits) or 6e-6 (known finding)"}
MANDATORY_LABELS = {"quick": ["ctor:kw", "ctor:dict", "rel:None", "rel:True", "rel:False", "smooth:None", "smooth:True", "smooth:False", "route:prog", "route:parse", "kind:A", "kind:C", "kind:Q", "smooth-eligible", "subpath", "no-own-move"]}
MANDATORY_LABELS["thorough"] = MANDATORY_LABELS["quick"]


def decode(d):
    case = {"relative": d.choice([None, False, True]), "smooth": d.choice([None, False, True]), "sub": d.below(4)}
    if d.chance(3, 8):
        text, _ = gen.path_text(d, min_cmds=1, max_cmds=8)
        case.update(route="parse", d=text, ctor=d.choice(lib.CTOR_FORMS))
        return case
    move_led = not d.chance(1, 5)
    segs = gen.path_segments(d, max_subpaths=3, max_segs=3, move_led=move_led, arc_degenerate=False)
    # make some consecutive curves smooth continuations of each other
    for i in range(1, len(segs)):
        a, b = segs[i - 1], segs[i]
        if a[0] == b[0] == "C" and d.bool():
            b[2] = [2 * b[1][0] - a[3][0], 2 * b[1][1] - a[3][1]]
        elif a[0] == b[0] == "Q" and d.bool():
            b[2] = [2 * b[1][0] - a[2][0], 2 * b[1][1] - a[2][1]]
        elif b[0] in "CQ" and a[0] in "LM" and d.chance(1, 4):
            b[2] = list(b[1])
        if a[0] == b[0] == "C" and d.chance(1, 6):
            # a decoy: the first control mirrors the previous curve's FIRST control - this is not a smooth continuation
            b[2] = [b[1][0] + (a[4][0] - a[2][0]), b[1][1] + (a[4][1] - a[2][1])]
    if d.chance(1, 6):
        # a decoy across an interruption: a curve ends at P, something that is not a curve of that degree brings the pen
        # back to exactly P (a line out and back, a zero-length close at P, a move to P, a curve of the other degree),
        # and the next curve mirrors the earlier curve's last control point about P.  That is not a smooth continuation:
        # S/T after anything but a curve of the same degree takes the current point as its control.
        p0, P = gen.point(d, gen.small_coord), gen.point(d, gen.small_coord)
        out = gen.point(d, gen.small_coord)
        c = gen.point(d, gen.small_coord)
        e = gen.point(d, gen.small_coord)
        mirror = [2 * P[0] - c[0], 2 * P[1] - c[1]]
        kind = d.choice(["Q", "C"])
        first = ["Q", p0, c, P] if kind == "Q" else ["C", p0, gen.point(d, gen.small_coord), c, P]
        second = ["Q", list(P), mirror, e] if kind == "Q" else ["C", list(P), mirror, gen.point(d, gen.small_coord), e]
        gap = d.choice(["out-and-back", "move", "other-degree", "closed-start", "directly-after-other-degree"])
        if gap == "directly-after-other-degree":
            # the curve right before is of the other degree and its last control is the one mirrored
            first = ["C", p0, gen.point(d, gen.small_coord), c, P] if kind == "Q" else ["Q", p0, c, P]
            middle = []
        elif gap == "out-and-back":
            middle = [["L", list(P), out], ["L", list(out), list(P)]]
        elif gap == "move":
            middle = [["M", list(P)]]
        elif gap == "other-degree":
            middle = [["C", list(P), out, out, list(P)]] if kind == "Q" else [["Q", list(P), out, list(P)]]
        else:
            # the subpath starts at P, so that its close returns there: M P, first' (P -> ... -> P), Z
            first = ["Q", list(P), c, list(P)] if kind == "Q" else ["C", list(P), gen.point(d, gen.small_coord), c, list(P)]
            p0 = list(P)
            middle = [["Z"]]
        segs = [["M", list(p0)], first] + middle + [second]
        case["decoy"] = gap
    if d.chance(1, 5):
        # near-coincident points: offsets of the order 1e-10 .. 1e-20 are written in exponent form
        i = d.below(len(segs))
        if segs[i][0] in "LQC":
            delta = d.choice([1.5e-10, 2.5e-10, -3.5e-10, 1.25e-20, 7.5e-10, 2.5e-5])
            segs[i][-1] = [segs[i][1][0] + delta, segs[i][1][1] - delta * d.choice([1.0, 2.0, 0.5])]
            # keep the path connected
            if i + 1 < len(segs) and segs[i + 1][0] in "LQCA":
                segs[i + 1][1] = list(segs[i][-1])
            elif i + 1 < len(segs) and segs[i + 1][0] == "Z":
                pass
    case.update(route="prog", segs=segs)
    return case


def parts(tier):
    n = 3000 if tier == "quick" else 15000
    return [core.Part("paths", "sampled", lambda: gen.cases(decode, 640), budget=n)]


TS = [0.0, 0.25, 0.5, 0.75, 1.0]


def arc_bound(arc, delta):
    """deviation that a relative perturbation `delta` of the written numbers can cause, from the arc's conditioning"""
    rx, ry = arc.rx, arc.ry
    if min(rx, ry) <= 0:
        return 0.0
    R = max(rx, ry)
    ratio = R / min(rx, ry)
    # half chord in the frame where the ellipse is the unit circle
    rot = float(arc.get_rotation())
    c, s = math.cos(rot), math.sin(rot)
    dx, dy = (arc.end.x - arc.start.x) / 2.0, (arc.end.y - arc.start.y) / 2.0
    u, v = (c * dx + s * dy) / rx, (-s * dx + c * dy) / ry
    half = min(1.0, math.hypot(u, v))
    h = math.sqrt(max(0.0, 1.0 - half * half))
    amp = min(delta / h if h > 0 else float("inf"), math.sqrt(2.0 * delta))
    return 8.0 * R * ratio * (amp + delta)


def check(case):
    se = lib.L()
    o = core.Obs()
    rel, smooth = case["relative"], case["smooth"]
    o.label("rel:%s" % rel, "smooth:%s" % smooth, "route:%s" % case["route"])
    if case.get("decoy"):
        o.label("decoy:across-%s" % case["decoy"])
    if case["route"] == "prog":
        p = lib.mk_path(case["segs"])
        first = case["segs"][0][0]
        if first != "M" or any(a[0] == "Z" and b[0] not in "MZ" for a, b in zip(case["segs"], case["segs"][1:])):
            o.label("no-own-move")
    else:
        ref = pathref.interpret(case["d"])
        if ref.error is not None:
            raise core.HarnessError("generator produced non-conforming text %r" % case["d"])
        if ref.nonfinite:
            return o.excluded("non-finite number")
        p = lib.path_from_text(case["d"], case.get("ctor", "pos"))
        o.label("ctor:%s" % case.get("ctor", "pos"))
        if "close-then-nonmove" in ref.info:
            o.label("no-own-move")
    if len(p) and lib.kind_of(p[0]) != "M":
        # a fragment without a leading move: its d() cannot carry the starting point, the law is not applicable
        return o.excluded("path fragment without a leading move")
    S = max(1e-3, lib.scale_of([[lib.xy(s.start), lib.xy(s.end)] + [lib.xy(x) for _, x in c02.stored_points(s) if x is not None] for s in p]))
    orig = [_copy.copy(s) for s in p]
    for s in orig:
        o.label("kind:%s" % lib.kind_of(s))
    known = None
    eligible = False
    for a, b in zip(orig, orig[1:]):
        if lib.kind_of(b) in "QC" and b.is_smooth_from(a):
            eligible = True
    if eligible:
        o.label("smooth-eligible")

    outputs = [("d()", lambda: p.d(relative=rel, smooth=smooth), orig)]
    if rel is None and smooth is None:
        outputs.append(("str()", lambda: str(p), orig))
    subs = list(p.as_subpaths())
    if subs:
        o.label("subpath")
        idx = case["sub"] % len(subs)
        lo = sum(len(x) for x in subs[:idx])
        window = orig[lo: lo + len(subs[idx])]
        outputs.append(("Subpath.d()", lambda: subs[idx].d(relative=rel, smooth=smooth), window))

    for what, f, want in outputs:
        text = f()
        if what == "Subpath.d()" and want and lib.kind_of(want[0]) != "M":
            # a subpath view without a move of its own is written without its starting point (and its first relative
            # offset refers to the origin): the text cannot reproduce the view by itself, so the law is not applicable
            o.label("subpath:no-own-move-skipped")
            continue
        tokens = pathref.interpret(text, require_move=False)
        if tokens.error is not None:
            return o.violation("%s:not-path-data" % what, "%s produced %r, not grammar-conforming (%r)" % (what, text, tokens.error))
        q = se.Path(text)
        if [lib.kind_of(s) for s in q] != [lib.kind_of(s) for s in want]:
            return o.violation("%s:kinds" % what, "%r: kinds %s became %s" % (text, "".join(lib.kind_of(s) for s in want), "".join(lib.kind_of(s) for s in q)))
        nrel = 0
        for i, (a, b, tok) in enumerate(zip(want, q, tokens.segments)):
            k = lib.kind_of(a)
            if tok["cmd"].islower():
                nrel += 1
            tol = (nrel + 1) * 1e-11 * S
            if k == "M":
                if not core.pclose(lib.xy(a.end), lib.xy(b.end), tol):
                    return o.violation("%s:geometry:M" % what, "%r: move to %r became %r" % (text, lib.xy(a.end), lib.xy(b.end)))
                continue
            if k == "A" and abs(a.sweep) > 1e-12:
                # ---- sharp side: the tokens the writer produced
                if tok["k"] != "A":
                    return o.violation("%s:arc-token" % what, "%r: segment %d written as %r" % (text, i, tok["cmd"]))
                six = 5.1e-6
                if abs(tok["rx"] - a.rx) > six * a.rx or abs(tok["ry"] - a.ry) > six * a.ry:
                    return o.violation("%s:arc-radii" % what, "%r: arc %d has radii %r,%r, written %r,%r" % (text, i, a.rx, a.ry, tok["rx"], tok["ry"]))
                if abs(a.rx - a.ry) > 1e-9 * max(a.rx, a.ry):
                    rot = math.degrees(float(a.get_rotation()))
                    dr = (tok["rot"] - rot) % 180.0
                    dr = min(dr, 180.0 - dr)
                    if dr > six * max(abs(rot), 1.0) + 1e-9:
                        return o.violation("%s:arc-rotation" % what, "%r: arc %d rotation %r written %r" % (text, i, rot, tok["rot"]))
                if abs(abs(a.sweep) - math.pi) > 1e-9 and bool(tok["fa"]) != (abs(a.sweep) > math.pi):
                    return o.violation("%s:arc-large-flag" % what, "%r: arc %d sweep %r written with large-arc %r" % (text, i, a.sweep, tok["fa"]))
                if bool(tok["fs"]) != (a.sweep >= 0):
                    return o.violation("%s:arc-sweep-flag" % what, "%r: arc %d sweep %r written with sweep flag %r" % (text, i, a.sweep, tok["fs"]))
                if not core.pclose(lib.xy(b.end), lib.xy(a.end), tol):
                    return o.violation("%s:arc-end" % what, "%r: arc %d ends at %r, came back ending at %r" % (text, i, lib.xy(a.end), lib.xy(b.end)))
                if abs(a.sweep) >= 2 * math.pi:
                    continue  # documented: a sweep of a full turn or more cannot be written as one command
                # ---- fidelity side
                dev = 0.0
                for t in TS:
                    pa, pb = lib.xy(a.point(t)), lib.xy(b.point(t))
                    if pb is None:
                        return o.violation("%s:non-numeric" % what, "%r: arc %d point(%r) = %r" % (text, i, t, b.point(t)))
                    dev = max(dev, abs(pa[0] - pb[0]), abs(pa[1] - pb[1]))
                if dev <= arc_bound(a, 1e-11) + tol + 1e-9 * max(a.rx, a.ry):
                    continue
                if dev <= arc_bound(a, 6e-6) + tol:
                    known = "%r: arc %d (radii %r, %r) came back %.3g away" % (text, i, a.rx, a.ry, dev)
                    continue
                return o.violation("%s:arc-fidelity" % what, "%r: arc %d (radii %r,%r sweep %r) came back %.3g away; six-digit rounding explains at most %.3g" % (text, i, a.rx, a.ry, a.sweep, dev, arc_bound(a, 6e-6)))
            for t in TS:
                pa, pb = lib.xy(a.point(t)), lib.xy(b.point(t))
                if pa is None or pb is None or not core.pclose(pa, pb, tol):
                    return o.violation("%s:geometry:%s" % (what, k), "%r: segment %d (%s, written %r) point(%r) = %r, original %r" % (text, i, k, tok["cmd"], t, pb, pa))
            if k in "QC":
                for name in ("control", "control1", "control2"):
                    if hasattr(a, name):
                        ca, cb = lib.xy(getattr(a, name)), lib.xy(getattr(b, name))
                        if cb is None or not core.pclose(ca, cb, 2 * tol):
                            return o.violation("%s:control:%s" % (what, k), "%r: segment %d %s %r came back %r (written %r)" % (text, i, name, ca, cb, tok["cmd"]))
    if known is not None:
        return o.known("KF-ARC-D-6DIGITS", known)
    kinds = set(lib.kind_of(s) for s in orig)
    o.nontrivial = bool(kinds & set("QCA")) and (rel is True or eligible or "A" in kinds or (rel is None and case["route"] == "parse"))
    return o.ok()
