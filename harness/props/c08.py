"""
C08 - bounding boxes contain the geometry and are tight.

Cases:
  {"kind": "seg", "seg": plain segment (L/Q/C/A/E), "cls": label}
  {"kind": "path", "segs": [...], "A": matrix, "stroke": width|None, "sub": i}
  {"kind": "shape", "shape": [kind, params], "A": matrix, "stroke": width|None}
  {"kind": "group", "leaves": [[shape, matrix, stroke], ...], "nest": [...], "G": matrix|None}
  {"kind": "use", ...}
Oracle: dense sampling of point(t) (mapped through the matrix by harness arithmetic) with golden-section refinement
        of each of the four extremes: gives the inner box the reported box must contain and the exact box it must
        equal within the tightness tolerance.
"""
import copy as _copy
import io
import math

from .. import core, gen, lib
from . import c02, c17

PROPERTY = "C08"
RULE = (
    "cases are (segments) quadratic/cubic Beziers with constructed per-axis extremum structure (monotone, one or two "
    "interior extrema, axis-degenerate, near-linear cubics whose leading coefficient straddles the library's 1e-8 "
    "threshold), arcs of every rotation class and extents from 1e-3 to beyond a full turn; (paths/shapes) generated "
    "paths, subpaths and basic shapes under the matrix classes with transformed in {True, False} and with_stroke in "
    "{True, False}; (containers) groups, nested groups, use instances of shapes and groups, chains of uses (use of a use), the use inside a group; leaves collected by the harness itself. Non-trivial = a curved segment with "
    "an interior extremum, a container with >= 2 children, or a painted stroke under a non-unit determinant; "
    "distinct by the case."
)
ASSUMPTIONS = [
    "the geometry is the library's own point(t) of the untransformed segments, mapped by harness arithmetic",
    "a box side may be touched by a move's end point (the library counts isolated moves; the property does not forbid it)",
    "Circle/Ellipse bbox() under non-conformal matrices belongs to known finding KF-ROUNDSHAPE-TRANSFORMED",
    "near-linear cubics whose leading coefficient is below the library's absolute 1e-8 threshold are judged like any "
    "other; tightness is 1e-7 * scale, so a sub-threshold cubic term at ordinary scale cannot move an extremum by more",
]
TOLERANCES = {"containment": "1e-9 * S", "tightness": "1e-7 * S", "arc": "+ 1e-15 * (ratio*cond)^2 * S"}
MANDATORY_LABELS = {"quick": ["seg:Q", "seg:C", "seg:A", "seg:L", "extrema:0", "extrema:1", "extrema:2", "cubic:near-linear", "arc:beyond-full-turn", "arc:tiny", "path", "subpath", "stroke:transformed", "stroke:untransformed", "shape:rrect", "shape:circle", "group", "group:nested", "group:empty", "use", "use:chained", "history:created-empty-then-sized", "stroke:non-scaling", "group:with-empty-member"]}
MANDATORY_LABELS["thorough"] = MANDATORY_LABELS["quick"]

GOLD = (math.sqrt(5.0) - 1.0) / 2.0
N = 96
_MEMO = {}


def refine(f, lo, hi, sign, iters=34):
    a, b = lo, hi
    c = b - GOLD * (b - a)
    d = a + GOLD * (b - a)
    fc, fd = sign * f(c), sign * f(d)
    for _ in range(iters):
        if fc > fd:
            b, d, fd = d, c, fc
            c = b - GOLD * (b - a)
            fc = sign * f(c)
        else:
            a, c, fc = c, d, fd
            d = a + GOLD * (b - a)
            fd = sign * f(d)
    t = (a + b) / 2.0
    return max(sign * f(t), fc, fd, sign * f(lo), sign * f(hi)) * sign


def exact_box(seg, M):
    """(xmin, ymin, xmax, ymax) of M(seg.point(t)), t in [0,1], and the count of interior extrema found"""
    key = (id(seg), tuple(M))
    hit = _MEMO.get(key)
    if hit is not None and hit[0] is seg:
        return hit[1], hit[2]
    box, n = _exact_box(seg, M)
    if len(_MEMO) > 4000:
        _MEMO.clear()
    _MEMO[key] = (seg, box, n)
    return box, n


closure_gap = c02.closure_gap


def fast_eval(seg):
    """t -> (x, y) equal to seg.point(t), evaluated by the harness from the segment's public fields (10x cheaper than
    the library call); the equivalence is verified on three parameters and the library call is used if it fails."""
    k = lib.kind_of(seg)
    slow = lambda t: lib.xy(seg.point(t))
    if k == "Q":
        (x0, y0), (x1, y1), (x2, y2) = lib.xy(seg.start), lib.xy(seg.control), lib.xy(seg.end)

        def f(t):
            u = 1.0 - t
            return (u * u * x0 + 2 * u * t * x1 + t * t * x2, u * u * y0 + 2 * u * t * y1 + t * t * y2)
    elif k == "C":
        (x0, y0), (x1, y1), (x2, y2), (x3, y3) = lib.xy(seg.start), lib.xy(seg.control1), lib.xy(seg.control2), lib.xy(seg.end)

        def f(t):
            u = 1.0 - t
            b0, b1, b2, b3 = u * u * u, 3 * u * u * t, 3 * u * t * t, t * t * t
            return (b0 * x0 + b1 * x1 + b2 * x2 + b3 * x3, b0 * y0 + b1 * y1 + b2 * y2 + b3 * y3)
    elif k == "A" and abs(seg.sweep) > 1e-12:
        st, sw = seg.get_start_t(), seg.sweep
        rot = float(seg.get_rotation())
        rx, ry = seg.rx, seg.ry
        cx, cy = seg.center.x, seg.center.y
        cr, sr = math.cos(rot), math.sin(rot)
        s0, e0 = lib.xy(seg.start), lib.xy(seg.end)

        def f(t):
            if t == 0:
                return s0
            if t == 1:
                return e0
            th = st + sw * t
            ct, sn = math.cos(th), math.sin(th)
            return (cx + rx * ct * cr - ry * sn * sr, cy + rx * ct * sr + ry * sn * cr)
    else:
        return slow
    S = max(1e-3, lib.scale_of([lib.xy(p) for _, p in c02.stored_points(seg) if p is not None]))
    for t in (0.0, 0.3, 0.77, 1.0):
        a, b = f(t), slow(t)
        if abs(a[0] - b[0]) > 1e-10 * S or abs(a[1] - b[1]) > 1e-10 * S:
            return slow
    return f


def _exact_box(seg, M):
    if lib.kind_of(seg) == "M":
        p = gen.mat_apply(M, lib.xy(seg.end))
        return (p[0], p[1], p[0], p[1]), 0
    if lib.kind_of(seg) in ("L", "Z"):
        p, q = gen.mat_apply(M, lib.xy(seg.start)), gen.mat_apply(M, lib.xy(seg.end))
        return (min(p[0], q[0]), min(p[1], q[1]), max(p[0], q[0]), max(p[1], q[1])), 0
    f = fast_eval(seg)
    a_, b_, c_, d_, e_, f_ = M

    def pt(t):
        x, y = f(t)
        return (a_ * x + c_ * y + e_, b_ * x + d_ * y + f_)

    ts = [i / float(N) for i in range(N + 1)]
    pts = [pt(t) for t in ts]
    out = []
    interior = 0
    for axis, sign in ((0, -1.0), (1, -1.0), (0, 1.0), (1, 1.0)):
        vals = [sign * p[axis] for p in pts]
        top = max(vals)
        spread = top - min(vals)
        best = None
        best_i = 0
        # refine around every sampled local maximum that comes close to the top (several humps of nearly equal height
        # occur for arcs beyond a half turn and for S-shaped cubics)
        for i in range(N + 1):
            left = vals[i - 1] if i > 0 else -float("inf")
            right = vals[i + 1] if i < N else -float("inf")
            if vals[i] >= left and vals[i] >= right and vals[i] >= top - 0.02 * spread - 1e-300:
                lo, hi = ts[max(i - 1, 0)], ts[min(i + 1, N)]
                v = refine(lambda t: pt(t)[axis], lo, hi, sign)
                if best is None or sign * v > sign * best:
                    best, best_i = v, i
        if 0 < best_i < N:
            interior += 1
        out.append(best)
    return (out[0], out[1], out[2], out[3]), interior


def union(boxes):
    boxes = [b for b in boxes if b is not None]
    if not boxes:
        return None
    return (min(b[0] for b in boxes), min(b[1] for b in boxes), max(b[2] for b in boxes), max(b[3] for b in boxes))


# ---- generators ------------------------------------------------------------------------------------------------


def axis_values(d, n, structure):
    """control values along one axis with a constructed extremum structure"""
    c = gen.small_coord
    a0 = c(d)
    if structure == "flat":
        return [a0] * n
    span = abs(gen.loguniform(d, -1.0, 2.5, False))
    if structure == "monotone":
        steps = sorted(d.unit() for _ in range(n - 1))
        return [a0] + [a0 + span * s for s in steps]
    if structure == "one":
        if n == 3:
            return [a0, a0 + span * d.uniform(1.0, 3.0), a0 + span * d.uniform(-0.5, 0.9)]
        return [a0, a0 + span * d.uniform(0.5, 3.0), a0 + span * d.uniform(0.5, 3.0), a0 + span * d.uniform(-1.0, 0.4)]
    if structure == "two":  # cubic only: up then down then up
        return [a0, a0 + span * d.uniform(1.0, 3.0), a0 - span * d.uniform(1.0, 3.0), a0 + span * d.uniform(0.0, 1.0)]
    # near-linear cubic: a quadratic lifted to a cubic, leading coefficient perturbed around the 1e-8 threshold
    q0, q1, q2 = a0, a0 + span * d.uniform(0.5, 2.0), a0 + span * d.uniform(-1.0, 1.0)
    eps = d.choice([0.0, 1e-9, -1e-9, 9e-9, -9e-9, 1.1e-8, -1.1e-8, 1e-7, -1e-7, 1e-6])
    vals = [q0, q0 + 2.0 / 3.0 * (q1 - q0), q2 + 2.0 / 3.0 * (q1 - q2), q2]
    vals[3] -= eps
    return vals


def decode_seg(d):
    k = d.choice(["Q", "C", "C", "A", "A", "E", "L"])
    if k in ("Q", "C"):
        n = 3 if k == "Q" else 4
        structs = ["flat", "monotone", "one", "one"] + (["two", "two", "near-linear", "near-linear"] if n == 4 else [])
        sx, sy = d.choice(structs), d.choice(structs)
        xs, ys = axis_values(d, n, sx), axis_values(d, n, sy)
        scale = d.choice([1.0, 1.0, 1e-3, 1e3])
        seg = [k] + [[x * scale, y * scale] for x, y in zip(xs, ys)]
        return {"kind": "seg", "seg": seg, "cls": "%s:%s/%s" % (k, sx, sy)}
    if k == "A":
        cls, arc = gen.arc_endpoint(d, allow_degenerate=True)
        return {"kind": "seg", "seg": arc, "cls": "A:" + cls}
    if k == "E":
        sweep = d.choice([1e-3, 0.01, 0.5, 1.0, math.pi / 2, 3.0, math.pi, 4.0, 6.0, 2 * math.pi, 7.5, 9.0]) * d.choice([1, -1])
        rot = d.choice([0.0, 90.0, 180.0, 270.0, 45.0, 30.0]) if d.bool() else gen.angle_deg(d)
        seg = ["E", gen.point(d, gen.small_coord), abs(gen.loguniform(d, -1, 2.5, False)), abs(gen.loguniform(d, -1, 2.5, False)), rot, gen.r6(d.uniform(-7.0, 7.0)), sweep]
        return {"kind": "seg", "seg": seg, "cls": "A:centre"}
    cls, seg = gen.segment(d, "L")
    return {"kind": "seg", "seg": seg, "cls": cls}


def stroke_choice(d):
    return d.choice([None, None, 1.0, 2.0, 0.5, 10.0])


def decode_path(d):
    return {"kind": "path", "segs": gen.path_segments(d, max_subpaths=3, max_segs=3, c=gen.small_coord), "A": gen.matrix(d), "stroke": stroke_choice(d), "sub": d.below(4), "nss": d.chance(1, 3)}


def decode_shape(d):
    return {"kind": "shape", "shape": c02.shape_params(d), "A": gen.matrix(d), "stroke": stroke_choice(d), "grown": (1 + d.below(16)) if d.chance(1, 4) else 0}


def decode_group(d):
    def leaves(n):
        out = [[c02.shape_params(d), gen.matrix(d), stroke_choice(d)] for _ in range(n)]
        if d.chance(1, 3):
            # a member that renders nothing (no box of its own) at a generated position among the others
            empty = d.choice([["rect", [1.0, 2.0, 0.0, 5.0, 0.0, 0.0]], ["rect", [1.0, 2.0, 4.0, 0.0, 0.0, 0.0]], ["polyline", []], ["circle", [3.0, 4.0, 0.0]], ["ellipse", [3.0, 4.0, 2.0, 0.0]]])
            out.insert(d.below(len(out) + 1), [empty, gen.matrix(d), stroke_choice(d)])
        return out

    kind = d.choice(["group", "group", "use"])
    if kind == "group":
        return {"kind": "group", "leaves": leaves(d.int(0, 3)), "nest": leaves(d.int(0, 2)) if d.bool() else None, "G": gen.matrix(d) if d.bool() else None}
    return {"kind": "use", "shape": c02.shape_params(d), "x": gen.small_coord(d), "y": gen.small_coord(d), "T": d.choice(["", "rotate(30)", "scale(2,0.5)", "skewX(20)", "matrix(0,1,1,0,3,4)"]), "group": d.bool(),
            "chain": d.below(3), "in_group": d.bool()}


def parts(tier):
    n = 2400 if tier == "quick" else 30000
    return [
        core.Part("segments", "sampled", lambda: gen.cases(decode_seg, 128), budget=n),
        core.Part("paths", "sampled", lambda: gen.cases(decode_path, 512), budget=n // 6),
        core.Part("shapes", "sampled", lambda: gen.cases(decode_shape, 128), budget=n // 4),
        core.Part("containers", "sampled", lambda: gen.cases(decode_group, 512), budget=n // 6),
    ]


# ---- oracle ------------------------------------------------------------------------------------------------------


def judge_box(o, got, want, S, what, inner=None, extra_tol=0.0, alt=None):
    """got must be ordered, contain `want` (containment tolerance) and equal it side by side (tightness tolerance);
    `alt` is a second admissible exact box (drawn geometry + move end points)."""
    if got is None:
        return o.violation("%s:none" % what, "bbox is None, geometry spans %r" % (want,))
    if any(not core.isnum(v) for v in got):
        return o.violation("%s:non-numeric" % what, "bbox %r" % (got,))
    if got[0] > got[2] or got[1] > got[3]:
        return o.violation("%s:unordered" % what, "bbox %r" % (got,))
    ctol = 1e-9 * S + extra_tol
    ttol = 1e-7 * S + extra_tol
    names = ("xmin", "ymin", "xmax", "ymax")
    for i in range(4):
        g, w = got[i], want[i]
        outside = (g - w) if i < 2 else (w - g)  # positive when the geometry sticks out of the reported box
        if outside > ctol:
            return o.violation("%s:not-contained" % what, "bbox %r does not contain the geometry %r (%s off by %.3g, scale %.3g)" % (got, want, names[i], outside, S))
        if abs(g - w) > ttol:
            if alt is not None and abs(g - alt[i]) <= ttol:
                continue
            return o.violation("%s:not-tight" % what, "bbox %r, geometry %r: %s is %.3g away (scale %.3g)" % (got, want, names[i], abs(g - w), S))
    return None


def box_scale(b):
    return max(1e-3, max(abs(v) for v in b))


def check(case):
    k = case["kind"]
    if k == "seg":
        return check_seg(case)
    if k == "path":
        return check_path(case)
    if k == "shape":
        return check_shape(case)
    if k == "group":
        return check_group(case)
    return check_use(case)


def check_seg(case):
    o = core.Obs()
    seg = c02.mk_seg(case["seg"])
    k = lib.kind_of(seg)
    o.label("seg:%s" % k, "cls:%s" % case["cls"])
    if "near-linear" in case["cls"]:
        o.label("cubic:near-linear")
    want, interior = exact_box(seg, gen.IDENTITY)
    o.label("extrema:%d" % min(interior, 2) if k in "QC" else "extrema:arc")
    extra = 0.0
    S = max(box_scale(want), lib.scale_of([lib.xy(p) for _, p in c02.stored_points(seg) if p is not None]))
    if k == "A":
        if abs(seg.sweep) > 2 * math.pi:
            o.label("arc:beyond-full-turn")
        if abs(seg.sweep) <= 0.011:
            o.label("arc:tiny")
        r = c02.arc_ratio(seg)
        S = max(S, seg.rx, seg.ry)
        extra = 1e-15 * r * r * S + closure_gap(seg)
    got = seg.bbox()
    bad = judge_box(o, got, want, S, "segment:%s" % k, extra_tol=extra)
    if bad is not None:
        bad.detail = "%r: %s" % (case["seg"], bad.detail)
        return bad
    o.nontrivial = k in "QCA" and interior >= 1
    return o.ok()


def geometry_boxes(segs, M):
    """-> (box of drawn segments, box incl. move end points, interior count)"""
    drawn, moves, interior = [], [], 0
    for s in segs:
        if lib.kind_of(s) == "M":
            b, _ = exact_box(s, M)
            moves.append(b)
        else:
            b, n = exact_box(s, M)
            interior += n
            drawn.append(b)
    d = union(drawn)
    return d, union(drawn + moves), interior


def arc_extra(segs, M, S):
    extra = 0.0
    for s in segs:
        if lib.kind_of(s) == "A" and abs(s.sweep) > 1e-12:
            amp = c02.arc_ratio(s) * c02.cond(M)
            extra = max(extra, 1e-15 * amp * amp * max(S, max(s.rx, s.ry) * gen.mat_norm(M) * 2.0) + closure_gap(s) * max(1.0, gen.mat_norm(M) * 2.0))
    return extra


def grow(b, delta):
    return None if b is None else (b[0] - delta, b[1] - delta, b[2] + delta, b[3] + delta)


def check_path(case):
    se = lib.L()
    o = core.Obs()
    o.label("path", "mat:%s" % case["A"]["cls"])
    A = case["A"]["m"]
    p = lib.mk_path(case["segs"]) * lib.mk_matrix(A)
    sw = case["stroke"]
    if sw is not None:
        p.stroke = se.Color("red")
        p.stroke_width = sw
    nss = bool(case.get("nss")) and sw is not None
    if nss:
        # a stroke that does not scale with the element's transform (no viewport transform here: it keeps its width)
        p.values["vector-effect"] = "non-scaling-stroke"
        o.label("stroke:non-scaling")
    orig = list(p.segments(transformed=False))
    det = abs(gen.mat_det(A))
    for transformed in (True, False):
        M = A if transformed else gen.IDENTITY
        drawn, withmoves, interior = geometry_boxes(orig, M)
        if drawn is None:
            drawn = withmoves
        S = box_scale(withmoves)
        extra = arc_extra(orig, M, S)
        for with_stroke in (False, True):
            delta = 0.0
            if with_stroke and sw is not None:
                delta = sw * math.sqrt(det) / 2.0 if (transformed and not nss) else sw / 2.0
                o.label("stroke:%s" % ("transformed" if transformed else "untransformed"))
            got = p.bbox(transformed=transformed, with_stroke=with_stroke)
            what = "path(transformed=%s,with_stroke=%s)" % (transformed, with_stroke)
            bad = judge_box(o, got, grow(drawn, delta), S + delta, what, extra_tol=extra, alt=grow(withmoves, delta))
            if bad is not None:
                return bad
    # subpath views
    subs = list(p.as_subpaths())
    if subs:
        o.label("subpath")
        idx = case["sub"] % len(subs)
        sp = subs[idx]
        lo = sum(len(x) for x in subs[:idx])
        window = orig[lo: lo + len(sp)]
        for transformed in (True, False):
            M = A if transformed else gen.IDENTITY
            drawn, withmoves, _ = geometry_boxes(window, M)
            if drawn is None:
                drawn = withmoves
            S = box_scale(withmoves)
            got = sp.bbox(transformed=transformed)
            bad = judge_box(o, got, drawn, S, "subpath(transformed=%s)" % transformed, extra_tol=arc_extra(window, M, S), alt=withmoves)
            if bad is not None:
                return bad
            if sw is not None:
                # the view is painted with its path's stroke
                delta = sw * math.sqrt(det) / 2.0 if (transformed and not nss) else sw / 2.0
                got = sp.bbox(transformed=transformed, with_stroke=True)
                bad = judge_box(o, got, grow(drawn, delta), S + delta, "subpath(transformed=%s,with_stroke=True)" % transformed, extra_tol=arc_extra(window, M, S), alt=grow(withmoves, delta))
                if bad is not None:
                    return bad
    curved = any(s[0] in "QCA" for s in case["segs"])
    o.nontrivial = (curved and interior >= 1) or (sw is not None and abs(det - 1.0) > 1e-6)
    return o.ok()


def check_shape(case):
    se = lib.L()
    o = core.Obs()
    kind = case["shape"][0]
    o.label("shape:%s" % kind, "mat:%s" % case["A"]["cls"])
    A = case["A"]["m"]
    shape = c17.mk_shape(["rect" if kind == "rrect" else kind, case["shape"][1]]) * lib.mk_matrix(A)
    sw = case["stroke"]
    if sw is not None:
        shape.stroke = se.Color("blue")
        shape.stroke_width = sw
    if case.get("grown") and kind in ("rect", "rrect", "circle", "ellipse"):
        # the way an editor makes a shape: created with no size, asked for its boxes (none to give), then sized
        o.label("history:created-empty-then-sized")
        sized = dict((k_, getattr(shape, k_)) for k_ in (("width", "height") if kind in ("rect", "rrect") else ("rx", "ry")))
        for k_ in sized:
            setattr(shape, k_, 0.0)
        queries = [(False, False), (False, True), (True, False), (True, True)]
        r_ = int(case["grown"])  # the order (and number) of the queries is part of the case
        queries = (queries[r_ % 4:] + queries[: r_ % 4])[: 1 + (r_ // 4) % 4]
        for tr_, ws_ in queries:
            if True:
                empty = shape.bbox(transformed=tr_, with_stroke=ws_)
                if empty is not None:
                    return o.violation("shape:%s:empty-has-box" % kind, "%s with zero size has bbox %r" % (kind, empty))
        for k_, v_ in sized.items():
            setattr(shape, k_, v_)
    orig = list(shape.segments(transformed=False))
    if not orig:
        return o.excluded("degenerate shape")
    det = abs(gen.mat_det(A))
    known = None
    for transformed in (True, False):
        M = A if transformed else gen.IDENTITY
        drawn, withmoves, interior = geometry_boxes(orig, M)
        S = box_scale(withmoves)
        extra = arc_extra(orig, M, S)
        for with_stroke in (False, True):
            delta = 0.0
            if with_stroke and sw is not None:
                delta = sw * math.sqrt(det) / 2.0 if transformed else sw / 2.0
            got = shape.bbox(transformed=transformed, with_stroke=with_stroke)
            bad = judge_box(o, got, grow(drawn, delta), S + delta, "shape:%s(transformed=%s,with_stroke=%s)" % (kind, transformed, with_stroke), extra_tol=extra, alt=grow(withmoves, delta))
            if bad is not None:
                if kind in ("circle", "ellipse") and transformed and c02.roundshape_known_class(A):
                    known = bad
                    continue
                bad.detail = "%r x %r: %s" % (case["shape"], A, bad.detail)
                return bad
    if known is not None:
        return o.known("KF-ROUNDSHAPE-TRANSFORMED", known.detail)
    o.nontrivial = (kind in ("rrect", "circle", "ellipse") and not gen.matrix_is_similarity(A)) or (sw is not None and abs(det - 1.0) > 1e-6)
    return o.ok()


def leaf_boxes(leaf, transformed, with_stroke):
    """expected box of a leaf shape from its own untransformed segments and its own transform"""
    segs = list(leaf.segments(transformed=False))
    if not segs:
        return None, 0.0
    m = leaf.transform
    M = (float(m.a), float(m.b), float(m.c), float(m.d), float(m.e), float(m.f)) if transformed else gen.IDENTITY
    drawn, withmoves, _ = geometry_boxes(segs, M)
    delta = 0.0
    if with_stroke and leaf.stroke is not None and leaf.stroke.value is not None and leaf.stroke_width is not None:
        delta = leaf.stroke_width * (math.sqrt(abs(gen.mat_det(M))) if transformed else 1.0) / 2.0
    S = box_scale(withmoves)
    return grow(drawn, delta), arc_extra(segs, M, S)


def round_known(leaf):
    se = lib.L()
    if isinstance(leaf, (se.Circle, se.Ellipse)):
        m = leaf.transform
        return c02.roundshape_known_class((float(m.a), float(m.b), float(m.c), float(m.d), 0.0, 0.0))
    return False


def leaves_of(container):
    """the shapes below a container, by the harness's own recursion over the child lists (not the library's select())"""
    se = lib.L()
    out = []
    for child in container:
        if isinstance(child, se.Shape):
            out.append(child)
        elif isinstance(child, (se.Group, se.Use)):
            out.extend(leaves_of(child))
    return out


def check_container(o, container, what):
    se = lib.L()
    leaves = leaves_of(container)
    has_known = any(round_known(l) for l in leaves)
    for transformed in (True, False):
        for with_stroke in (False, True):
            boxes, extra = [], 0.0
            for l in leaves:
                b, ex = leaf_boxes(l, transformed, with_stroke)
                if b is not None:
                    boxes.append(b)
                    extra = max(extra, ex)
            want = union(boxes)
            got = container.bbox(transformed=transformed, with_stroke=with_stroke)
            if want is None:
                if got is not None:
                    return o.violation("%s:empty-not-none" % what, "container without rendered geometry has bbox %r" % (got,)), False
                continue
            bad = judge_box(o, got, want, box_scale(want), "%s(transformed=%s,with_stroke=%s)" % (what, transformed, with_stroke), extra_tol=extra)
            if bad is not None:
                if has_known and transformed:
                    return o.known("KF-ROUNDSHAPE-TRANSFORMED", bad.detail), True
                return bad, False
    return None, False


def check_group(case):
    se = lib.L()
    o = core.Obs()
    o.label("group")

    def mk(leaf):
        sp, m, sw = leaf
        s = c17.mk_shape(["rect" if sp[0] == "rrect" else sp[0], sp[1]]) * lib.mk_matrix(m["m"])
        if sw is not None:
            s.stroke = se.Color("green")
            s.stroke_width = sw
        return s

    g = se.Group()
    for leaf in case["leaves"]:
        g.append(mk(leaf))
    n = len(case["leaves"])
    if case["nest"] is not None:
        o.label("group:nested")
        inner = se.Group()
        for leaf in case["nest"]:
            inner.append(mk(leaf))
        g.append(inner)
        n += len(case["nest"])
    if n == 0:
        o.label("group:empty")
    if any(not list(m.segments()) for m in leaves_of(g)):
        o.label("group:with-empty-member")
    if case["G"] is not None:
        g *= lib.mk_matrix(case["G"]["m"])
    bad, _ = check_container(o, g, "group")
    if bad is not None:
        return bad
    o.nontrivial = n >= 2
    return o.ok()


def check_use(case):
    se = lib.L()
    o = core.Obs()
    o.label("use")
    kind, v = case["shape"]
    if kind in ("rect", "rrect"):
        el = '<rect id="a" x="%r" y="%r" width="%r" height="%r" rx="%r" ry="%r" stroke="red" stroke-width="2"/>' % tuple(v)
    elif kind == "circle":
        el = '<circle id="a" cx="%r" cy="%r" r="%r"/>' % tuple(v)
    elif kind == "ellipse":
        el = '<ellipse id="a" cx="%r" cy="%r" rx="%r" ry="%r"/>' % tuple(v)
    elif kind == "line":
        el = '<line id="a" x1="%r" y1="%r" x2="%r" y2="%r" stroke="black"/>' % tuple(v)
    else:
        el = '<%s id="a" points="%s"/>' % (kind, " ".join("%r,%r" % (p[0], p[1]) for p in v))
    if case["group"]:
        el = '<g id="grp">%s<rect x="1" y="1" width="2" height="3"/></g>' % el.replace('id="a"', 'id="inner"')
        ref = "#grp"
    else:
        ref = "#a"
    t = (' transform="%s"' % case["T"]) if case["T"] else ""
    # a chain of uses: the visible use refers to a use (in defs) that refers to ... the element
    chain = case.get("chain", 0)
    for i in range(chain):
        el += '<use id="link%d" xlink:href="%s" x="%d" y="2"/>' % (i, ref, i + 1)
        ref = "#link%d" % i
    if chain:
        o.label("use:chained")
    top = '<use id="u" xlink:href="%s" x="%r" y="%r"%s/>' % (ref, case["x"], case["y"], t)
    if case.get("in_group"):
        top = '<g id="holder" transform="translate(3,4)">%s</g>' % top
    doc = '<svg xmlns="http://www.w3.org/2000/svg" xmlns:xlink="http://www.w3.org/1999/xlink" width="500" height="500"><defs>%s</defs>%s</svg>' % (el, top)
    svg = se.SVG.parse(io.StringIO(doc), reify=False)
    uses = [e for e in svg.elements() if isinstance(e, se.Use) and e.id == "u"]
    if len(uses) != 1:
        return o.violation("use:missing", "expected one Use with id u in %r, got %d" % (doc, len(uses)))
    if not leaves_of(uses[0]):
        return o.violation("use:empty", "the use instance in %r has no shape below it" % doc)
    bad, _ = check_container(o, uses[0], "use")
    if bad is not None:
        bad.detail = "%s in %s" % (bad.detail, doc) if hasattr(bad, "detail") and bad.detail else doc
        return bad
    bad, _ = check_container(o, svg, "svg")
    if bad is not None:
        return bad
    o.nontrivial = case["group"]
    return o.ok()
