"""
C14 - fill, stroke and stroke width follow the SVG/CSS cascade and inheritance.

Case: a document AST with per-element classes, presentation attributes, inline styles ("style" dict on the node), a
      list of CSS rules ("css") and the text of the <style> element rendered from them ("style_text").
Oracle: the cascade evaluator of harness/ref/docref.py (specificity, source order, inheritance, defaults, currentColor,
        opacity folding) + the effective stroke width law.
"""
import io
import math

from .. import core, docgen, gen, lib
from ..ref import docref
from . import c03

PROPERTY = "C14"
RULE = (
    "cases are documents over the shape vocabulary with nesting and use in which, per element and per property (fill, "
    "stroke, stroke-width, fill-opacity, stroke-opacity, display), any subset of the sources {presentation attribute, "
    "universal rule, type rule, .class rule, type.class rule, #id rule, inline style} sets a value; rules are emitted "
    "in generated order into one <style> element before their first use, with and without trailing semicolons, comma "
    "selector lists and comments; transforms of any determinant, vector-effect, both reify settings. Non-trivial = some "
    "property of some shape has >= 2 competing sources or is inherited across >= 2 levels or through a use; distinct "
    "by the document."
)
ASSUMPTIONS = [
    "not generated: !important, percentage stroke widths, a color property below an ancestor that "
    "hands down a fill/stroke of currentColor or on elements instantiated through use (CSS 3 and 4 disagree on inherited currentColor), <style> after the elements it selects (the parser is "
    "a single streaming pass), vector-effect together with caller/svg transforms or nested svg (which transform is 'the "
    "viewport transform' is then disputed)",
    "effective stroke width = stroke_width * sqrt|det(shape.transform)|, compared with base * sqrt|det(accumulated "
    "transform)| (viewport transform alone for non-scaling strokes): one statement for reify=True, reify=False and shapes "
    "that refuse to reify",
]
TOLERANCES = {"stroke width": "(1e-9 + 2e-12 / scale) relative (12-decimal viewport transform text)", "colour": "exact RGBA (opacity folded with 1/255 rounding)"}
SOURCES = ["attr", "*", "type", ".class", "type.class", "#id", "inline"]
MANDATORY_LABELS = {"quick": ["winner:%s" % s for s in SOURCES] + ["inherited", "inherited:through-use", "currentColor", "currentColor:own-color", "opacity-folded", "vector-effect", "det:negative", "display:none-by-rule"]}
MANDATORY_LABELS["thorough"] = MANDATORY_LABELS["quick"]

WIDTHS = ["2", "0.5", "3", "1.5", "4px", "3pt", "10", "0.25"]
OPAC = ["0.5", "0.25", "1", "0.8", "0"]
CLASSES = ["c1", "C1", "Wd-3"]  # class names are case-sensitive: .C1 does not select class c1


def value_for(d, prop):
    if prop in ("fill", "stroke"):
        k = d.below(10)
        if k == 0:
            return "none"
        if k == 1:
            return "currentColor"
        return d.choice(docgen.PALETTE)
    if prop == "stroke-width":
        return d.choice(WIDTHS)
    if prop in ("fill-opacity", "stroke-opacity"):
        return d.choice(OPAC)
    return "none"


def decode(d):
    doc = docgen.build_doc(d, {"percent": False, "units": False, "nested_svg": d.chance(2, 8), "max_elements": 14, "caller": d.chance(2, 8)})
    root = doc["root"]
    nodes = [n for n, _ in docgen.walk(root)]
    plain = not doc["config"].get("transform") and "transform" not in root["attrs"] and not any(n["tag"] == "svg" and n is not root for n in nodes)
    rules = []
    for n in nodes:
        if n["tag"] == "defs":
            continue
        is_root = n is root
        # the <style> element can only follow the outermost svg's start tag, and the parser is a streaming pass: rules
        # cannot select the outermost svg itself (no class, type or id rules for it; '*' reaches its descendants directly)
        if d.chance(4, 8) and not is_root:
            n["cls"] = d.choice(CLASSES)
            if d.chance(1, 4):
                # a class list: two or three classes in a generated order
                k = d.int(2, 3)
                rot = d.below(len(CLASSES))
                order = (CLASSES[rot:] + CLASSES[:rot])[:k]
                if d.bool():
                    order.reverse()
                n["cls"] = " ".join(order)
        n["style"] = {}
        props = ["fill", "stroke", "stroke-width", "fill-opacity", "stroke-opacity"]
        for prop in props:
            if not d.chance(3, 8):
                continue
            nsrc = d.choice([1, 1, 2, 2, 3, 4])
            for _ in range(nsrc):
                src = d.choice(SOURCES if not is_root else ["attr", "inline", "*"])
                val = value_for(d, prop)
                if src == "attr":
                    n["attrs"][prop] = val
                elif src == "inline":
                    n["style"][prop] = val
                else:
                    if src in (".class", "type.class") and not n["cls"]:
                        n["cls"] = d.choice(CLASSES)
                    one = d.choice(str(n["cls"]).split()) if n["cls"] else None  # a rule names one class of the list
                    sel = {"*": "*", "type": n["tag"], ".class": "." + str(one), "type.class": "%s.%s" % (n["tag"], one), "#id": "#" + n["id"]}[src]
                    rules.append({"sel": [sel], "decl": {prop: val}})
        if n["tag"] in docgen.SHAPES and plain and d.chance(1, 6):
            n["attrs"]["vector-effect"] = "non-scaling-stroke"
        if n["tag"] in ("g",) + tuple(docgen.SHAPES) and d.chance(1, 16) and n["attrs"].get("display") != "none":
            rules.append({"sel": ["#" + n["id"]], "decl": {"display": "none"}})
            n["hidden_by_rule"] = True
    if d.chance(3, 8):
        root["attrs"]["color"] = d.choice(docgen.PALETTE)
    # `color` away from the root: unambiguous (CSS 3 = CSS 4) as long as no ancestor hands down a fill/stroke of
    # currentColor, and the element is not instantiated through a use (its ancestors then depend on the instance)
    def says_current(n):
        vals = [n["attrs"].get("fill"), n["attrs"].get("stroke"), (n.get("style") or {}).get("fill"), (n.get("style") or {}).get("stroke")]
        for r in rules:
            if any(docref.matches(sel, n) for sel in r["sel"]):
                vals += [r["decl"].get("fill"), r["decl"].get("stroke")]
        return "currentColor" in vals

    referenced = set()
    index = {n["id"]: n for n in nodes}
    for n in nodes:
        if n["tag"] == "use" and n.get("href") in index:
            for m, _ in docgen.walk(index[n["href"]]):
                referenced.add(m["id"])
    for n, parents in docgen.walk(root):
        if n is root or n["tag"] == "defs" or n["id"] in referenced or n["tag"] == "use":
            continue
        if any(says_current(p) for p in parents):
            continue
        if d.chance(1, 6):
            src = d.choice(["attr", "inline", "#id"])
            val = d.choice(docgen.PALETTE)
            if src == "attr":
                n["attrs"]["color"] = val
            elif src == "inline":
                n["style"]["color"] = val
            else:
                rules.append({"sel": ["#" + n["id"]], "decl": {"color": val}})
            n["own_color"] = True
    # a type rule for 'svg' would also select the outermost svg: only generated for documents without nested svg... none
    rules = [r for r in rules if r["sel"] != ["svg"]]
    # shuffle the rules (order matters only among equal specificity) and merge some into selector lists
    order = list(range(len(rules)))
    for i in range(len(order) - 1, 0, -1):
        j = d.below(i + 1)
        order[i], order[j] = order[j], order[i]
    rules = [rules[i] for i in order]
    merged = []
    for r in rules:
        if merged and d.chance(1, 6) and merged[-1]["decl"] == r["decl"]:
            merged[-1]["sel"] = merged[-1]["sel"] + r["sel"]
        elif merged and d.chance(1, 6) and merged[-1]["sel"] == r["sel"]:
            dd = dict(merged[-1]["decl"])
            dd.update(r["decl"])
            merged[-1] = {"sel": r["sel"], "decl": dd}
        else:
            merged.append({"sel": list(r["sel"]), "decl": dict(r["decl"])})
    doc["css"] = merged
    # text of the style element
    parts = []
    for r in merged:
        body = ";".join("%s:%s" % (k, v) if d.bool() else "%s: %s" % (k, v) for k, v in r["decl"].items())
        if d.bool():
            body += ";"
        sel = (", " if d.bool() else ",").join(r["sel"])
        # comments in every position the grammar allows, on one line or spanning several
        cm = lambda: d.choice(["/* c */", "/* %s{fill:lime} */" % sel, "/* two\n lines */", "/*\n * a block\n * comment {stroke:red}\n */"])
        if d.chance(1, 8):
            parts.append(cm())
        if d.chance(1, 10) and ";" in body:
            i = body.index(";") + 1
            body = body[:i] + " " + cm() + " " + body[i:]
        parts.append("%s%s{%s%s}" % (sel, d.choice(["", " "]), d.choice(["", " "]), body))
        if d.chance(1, 8):
            parts.append(cm())
    doc["style_text"] = d.choice(["", "\n", " "]).join(parts)
    # inline styles become the style attribute
    for n in nodes:
        if n.get("style"):
            n["attrs"]["style"] = ";".join("%s:%s" % kv for kv in n["style"].items()) + (";" if d.bool() else "")
    doc["config"]["reify"] = d.bool()
    return doc


def parts(tier):
    n = 8000 if tier == "quick" else 20000
    return [core.Part("documents", "sampled", lambda: gen.cases(decode, 1536), budget=n)]


def expected_paint(w):
    comp = w["paint"]
    out = {}
    for key, okey in (("fill", "fill-opacity"), ("stroke", "stroke-opacity")):
        rgba = docref.color_rgba(comp[key])
        if rgba is None:
            out[key] = None
        else:
            op = max(0.0, min(1.0, float(comp.get(okey, "1"))))
            out[key] = rgba[:3] + (rgba[3] * op,)
    out["width"] = docref.length_value(comp["stroke-width"], 96, None)
    out["nss"] = comp.get("vector-effect") == "non-scaling-stroke"
    return out


def analyse(doc, want, o):
    """labels: which source wins, inheritance depth"""
    css = doc.get("css")
    index = {n["id"]: (n, parents) for n, parents in docgen.walk(doc["root"])}
    nontrivial = False
    for w in want:
        n = w["node"]
        for prop in ("fill", "stroke", "stroke-width"):
            srcs = []
            if prop in n["attrs"]:
                srcs.append("attr")
            for r in css or []:
                if prop in r["decl"]:
                    for sel in r["sel"]:
                        if docref.matches(sel, n):
                            srcs.append({0: "*", 1: "type", 10: ".class", 11: "type.class", 100: "#id"}[docref.specificity(sel)])
            if prop in (n.get("style") or {}):
                srcs.append("inline")
            if srcs:
                rank = {s: i for i, s in enumerate(SOURCES)}
                o.label("winner:%s" % max(srcs, key=lambda s: rank[s]))
                if len(srcs) >= 2:
                    nontrivial = True
                    o.label("competing:%s>%s" % (max(srcs, key=lambda s: rank[s]), min(srcs, key=lambda s: rank[s])))
            else:
                o.label("inherited")
                if len(w["idpath"]) >= 3:
                    nontrivial = True
                if any(index[i][0]["tag"] == "use" for i in w["idpath"][:-1]):
                    o.label("inherited:through-use")
                    nontrivial = True
        spec = docref.specified(n, css)
        if spec.get("fill") == "currentColor" or spec.get("stroke") == "currentColor":
            o.label("currentColor")
            if "color" in spec and n is not doc["root"]:
                o.label("currentColor:own-color")
    return nontrivial


def check(case):
    """the CSS cascade first; a mismatch on a document with class lists is re-judged with the order in which the
    library applies the rules of a class list - if that explains it, it is the known finding"""
    out = check_model(case)
    if out.status != "violation":
        return out
    if not any(len((n.get("cls") or "").split()) > 1 for n, _ in docgen.walk(case["root"])):
        return out
    docref.CLASS_LIST_ORDER[0] = True
    try:
        alt = check_model(case)
    finally:
        docref.CLASS_LIST_ORDER[0] = False
    if alt.status == "ok":
        o = core.Obs()
        o.label(*out.labels)
        o.label("class-list:order-dependent")
        return o.known("KF-CLASS-LIST-ORDER", out.detail)
    return out


def check_model(case):
    se = lib.L()
    o = core.Obs()
    doc = case
    want, notes = docref.render(doc)
    notes.discard("zero-size-svg")
    if notes:
        return o.excluded(sorted(notes)[0])
    if any(n.get("hidden_by_rule") for n, _ in docgen.walk(doc["root"])):
        o.label("display:none-by-rule")
    text = docgen.to_xml(doc)
    reify = doc["config"]["reify"]
    svg = c03.parse(doc, reify, text)
    got = c03.shapes_of(svg)
    if [e.id for e in got] != [w["id"] for w in want]:
        return o.violation("presence", "library renders %r, the cascade (display) renders %r\n  document: %s" % ([e.id for e in got], [w["id"] for w in want], text))
    nontrivial = analyse(doc, want, o)
    for e, w in zip(got, want):
        exp = expected_paint(w)
        for key in ("fill", "stroke"):
            c = getattr(e, key)
            have = None if (c is None or c.value is None) else (c.red, c.green, c.blue, c.alpha)
            wantc = exp[key]
            ok = (have is None and wantc is None) or (have is not None and wantc is not None and have[:3] == tuple(wantc[:3]) and abs(have[3] - wantc[3]) <= 0.5 + 1e-9)
            if wantc is not None and wantc[3] not in (0, 255) and wantc[3] != int(wantc[3]):
                o.label("opacity-folded")
            if not ok:
                srcs = sorted(set(l.split(":", 1)[1] for l in o.labels if l.startswith("competing:")))
                return o.violation("%s" % key, "shape %r (%s, path %s): %s = %r, cascade gives %r (computed %r)\n  document: %s" % (
                    w["id"], w["tag"], ">".join(w["idpath"]), key, have, wantc, w["paint"].get(key), text))
        # effective stroke width
        m = e.transform
        det_e = abs(float(m.a) * float(m.d) - float(m.b) * float(m.c))
        M = w["vt"] if exp["nss"] else w["M"]
        det_w = abs(gen.mat_det(M))
        if gen.mat_det(w["M"]) < 0:
            o.label("det:negative")
        if exp["nss"]:
            o.label("vector-effect")
        if exp["nss"]:
            # a reified shape carries the effective width; an unreified one (reify=False, or a shape that refuses to
            # reify) keeps the base width and reports the effective one through implicit_stroke_width
            ident = max(abs(float(m.a) - 1), abs(float(m.b)), abs(float(m.c)), abs(float(m.d) - 1), abs(float(m.e)), abs(float(m.f))) <= 1e-9
            # (with reify=False a transform that happens to be the identity - viewport scale 1/2 under scale(2) - is
            # not a reified shape)
            have_w = e.stroke_width if (ident and reify) else e.implicit_stroke_width
        else:
            have_w = e.stroke_width * math.sqrt(det_e)
        want_w = exp["width"] * math.sqrt(det_w)
        # the viewport transform travels as text with 12 decimals: a scale factor s is known to 5e-13 / s relative
        rel = 1e-9 + 2e-12 / max(math.sqrt(det_w), 1e-300)
        if abs(have_w - want_w) > rel * max(want_w, 1e-3):
            return o.violation("stroke-width%s" % (":non-scaling" if exp["nss"] else ""), "shape %r (%s): effective stroke width %r (stroke_width %r, transform %r), expected %r = %r x sqrt|det|\n  document: %s\n  config: %r" % (
                w["id"], w["tag"], have_w, e.stroke_width, e.transform, want_w, exp["width"], text, doc["config"]))
    o.nontrivial = nontrivial
    return o.ok()
