"""
C11 - the viewport transform equals the SVG 2 (8.2) 'equivalent transform' algorithm.

Case: {"route": direct|object|parse|parse-percent|parse-default|nested, "par": "xMidYMid slice"|None,
       "e": [x, y, w, h] (decimal strings), "vb": [x, y, w, h] (decimal strings), "unit": "", "caller": [W, H]|None, "ppi": n}
       {"route": "degenerate", "kind": ...}
Oracle: (1) the 8.2 algorithm evaluated in exact rational arithmetic on the decimal strings; (2) a geometric predicate
        that does not use the algorithm text: the image of the viewBox lies inside (meet) / covers (slice) / equals (none)
        the viewport rectangle, touches it in one dimension and is aligned min/mid/max per axis.
"""
import io
import itertools
from fractions import Fraction

from .. import core, gen, lib

PROPERTY = "C11"
RULE = (
    "cases are the 10 align values x {absent, meet, slice} + 'no preserveAspectRatio' (31 cells, enumerated "
    "exhaustively) x 6 routes of supplying the element size (direct call, Viewbox.transform(element), SVG.parse with "
    "unit-bearing attributes, with percentages of a caller size, defaulted from the viewBox, nested svg with x/y) x "
    "numeric templates, plus generated sizes over six orders of magnitude with negative and fractional origins. "
    "Non-trivial = aspect ratios of element and viewBox differ by more than 1 %; distinct by the case."
)
ASSUMPTIONS = [
    'the object route builds the Viewbox in every constructor form: (text, par), (text, preserveAspectRatio=), (text, preserve_aspect_ratio=), keywords only, dict, four numbers + keyword, copy, attribute assigned',
    "x/y of the outermost svg are not generated (SVG gives them no meaning there); nested svg elements carry x/y",
    "preserveAspectRatio values are spelled with single spaces and exact case (the quantifier lists the 10 x 3 values)",
    "element sizes use px, pt, pc, in and percentages; mm/cm are left to C12 (inch-constant finding)",
]
TOLERANCES = {"matrix": "1e-12 * magnitude of the terms + 6e-13 (12-decimal text)", "geometry": "1e-9 * scale"}

ALIGNS = ["none", "xMinYMin", "xMidYMin", "xMaxYMin", "xMinYMid", "xMidYMid", "xMaxYMid", "xMinYMax", "xMidYMax", "xMaxYMax"]
CELLS = [None] + [a + s for a in ALIGNS for s in ("", " meet", " slice")]
ROUTES = ["direct", "object", "parse", "parse-percent", "parse-default", "nested"]
MANDATORY_LABELS = {"quick": ["route:%s" % r for r in ROUTES] + ["cell:%s" % (c or "absent") for c in CELLS] + ["degenerate:zero-viewbox", "degenerate:incomplete-viewbox", "degenerate:zero-size"]}
MANDATORY_LABELS["thorough"] = MANDATORY_LABELS["quick"]

TEMPLATES = [
    (["0", "0", "200", "100"], ["0", "0", "50", "50"]),
    (["10", "-20", "30", "90"], ["-5", "2.5", "300", "100"]),
    (["0", "0", "0.5", "800"], ["100", "100", "1000", "0.25"]),
    (["3.5", "7.25", "64", "64"], ["-0.5", "-0.5", "1", "1"]),
]


def cell_cases():
    for par, route, (e, vb) in itertools.product(CELLS, ROUTES, TEMPLATES):
        yield build(route, par, e, vb, "", [400.0, 300.0], 96)
    for par, form in itertools.product(CELLS, VB_FORMS):
        e, vb = TEMPLATES[0]
        c = build("object", par, e, vb, "", [400.0, 300.0], 96)
        c["vbform"] = form
        yield c
    for kind in ("zero-viewbox-width", "zero-viewbox-height", "zero-size-width", "zero-size-height", "incomplete-viewbox", "no-viewbox", "nested-zero-viewbox"):
        for par in (None, "xMinYMax slice", "none"):
            yield {"route": "degenerate", "kind": kind, "par": par}


def build(route, par, e, vb, unit, caller, ppi):
    if route in ("parse", "parse-percent", "parse-default"):
        e = ["0", "0", e[2], e[3]]
    return {"route": route, "par": par, "e": e, "vb": vb, "unit": unit, "caller": caller, "ppi": ppi}


def dec(d, lo, hi, signed):
    v = gen.loguniform(d, lo, hi, signed=signed)
    return repr(v)


def decode(d):
    par = d.choice(CELLS)
    route = d.choice(ROUTES)
    if d.bool():
        e = [d.choice(["0", "10", "-5", "2.5"]), d.choice(["0", "-10", "7", "0.25"]), dec(d, -3, 3, False), dec(d, -3, 3, False)]
        vb = [d.choice(["0", "-50", "12.5", "100"]), d.choice(["0", "30", "-0.125"]), dec(d, -3, 3, False), dec(d, -3, 3, False)]
    else:
        e = [dec(d, -2, 3, True), dec(d, -2, 3, True), dec(d, -1, 3, False), dec(d, -1, 3, False)]
        vb = [dec(d, -2, 3, True), dec(d, -2, 3, True), dec(d, -1, 3, False), dec(d, -1, 3, False)]
    unit = d.choice(["", "", "px", "pt", "pc", "in"])
    caller = [gen.loguniform(d, 0, 3.5, signed=False), gen.loguniform(d, 0, 3.5, signed=False)]
    c = build(route, par, e, vb, unit, caller, d.choice([96, 72, 100, 254]))
    if route == "object":
        c["vbform"] = d.choice(VB_FORMS)
    return c


def parts(tier):
    n = 12000 if tier == "quick" else 40000
    return [
        core.Part("cells", "exhaustive", cell_cases),
        core.Part("sampled", "sampled", lambda: gen.cases(decode, 96), budget=n),
    ]


UNIT = {"": Fraction(1), "px": Fraction(1), "pt": Fraction(4, 3), "pc": Fraction(16)}


def F(s):
    return Fraction(float(s))


def equivalent_transform(e, vb, par):
    """SVG 2 8.2, exact.  -> (sx, sy, tx, ty)"""
    ex, ey, ew, eh = e
    vx, vy, vw, vh = vb
    if par is None:
        align, mos = "xMidYMid", "meet"
    else:
        bits = par.split(" ")
        align = bits[0]
        mos = bits[1] if len(bits) > 1 else "meet"
    sx = ew / vw
    sy = eh / vh
    if align != "none":
        if mos == "meet":
            sx = sy = min(sx, sy)
        else:
            sx = sy = max(sx, sy)
    tx = ex - vx * sx
    ty = ey - vy * sy
    if "xMid" in align:
        tx += (ew - vw * sx) / 2
    if "xMax" in align:
        tx += ew - vw * sx
    if "YMid" in align:
        ty += (eh - vh * sy) / 2
    if "YMax" in align:
        ty += eh - vh * sy
    return sx, sy, tx, ty, align, mos


VB_FORMS = ["text,par", "text,kw", "text,kw_", "kwargs", "dict", "numbers,kw_", "numbers,kw", "copy", "assigned"]


def make_viewbox(se, form, vbtext, nums, par):
    """every documented way to say 'this rectangle, this preserveAspectRatio' to the Viewbox constructor"""
    if form == "text,par":
        return se.Viewbox(vbtext, par) if par is not None else se.Viewbox(vbtext)
    if form == "text,kw":
        return se.Viewbox(vbtext, preserveAspectRatio=par)
    if form == "text,kw_":
        return se.Viewbox(vbtext, preserve_aspect_ratio=par)
    if form == "kwargs":
        return se.Viewbox(viewBox=vbtext, preserveAspectRatio=par)
    if form == "dict":
        return se.Viewbox({"viewBox": vbtext, "preserveAspectRatio": par})
    if form == "numbers,kw_":
        return se.Viewbox(nums[0], nums[1], nums[2], nums[3], preserve_aspect_ratio=par)
    if form == "numbers,kw":
        return se.Viewbox(nums[0], nums[1], nums[2], nums[3], preserveAspectRatio=par)
    if form == "copy":
        return se.Viewbox(se.Viewbox(vbtext, par))
    v = se.Viewbox(vbtext)
    v.preserve_aspect_ratio = par
    return v


def check(case):
    if case["route"] == "degenerate":
        return check_degenerate(case)
    se = lib.L()
    o = core.Obs()
    route, par = case["route"], case["par"]
    o.label("route:%s" % route, "cell:%s" % (par or "absent"))
    unit = case["unit"]
    ppi = case["ppi"]
    uf = Fraction(ppi) if unit == "in" else UNIT[unit]
    vb = [F(v) for v in case["vb"]]
    vbtext = " ".join(case["vb"])
    cw, ch = case["caller"]
    shape_bbox = None
    if route == "direct":
        e = [F(v) for v in case["e"]]
        text = se.Viewbox.viewbox_transform(*([float(v) for v in case["e"]] + [float(v) for v in case["vb"]] + [par]))
    elif route == "object":
        e = [F(v) for v in case["e"]]
        element = se.Rect(float(case["e"][0]), float(case["e"][1]), float(case["e"][2]), float(case["e"][3]))
        form = case.get("vbform", "text,par")
        o.label("viewbox-form:%s" % form)
        text = make_viewbox(se, form, vbtext, [float(v) for v in case["vb"]], par).transform(element)
    else:
        attrs = ""
        if par is not None:
            attrs += ' preserveAspectRatio="%s"' % par
        rect = '<rect id="r" x="%s" y="%s" width="%s" height="%s"/>' % tuple(case["vb"])
        kw = {"ppi": ppi, "reify": True}
        if route == "parse":
            e = [Fraction(0), Fraction(0), F(case["e"][2]) * uf, F(case["e"][3]) * uf]
            doc = '<svg xmlns="http://www.w3.org/2000/svg" width="%s%s" height="%s%s" viewBox="%s"%s>%s</svg>' % (case["e"][2], unit, case["e"][3], unit, vbtext, attrs, rect)
        elif route == "parse-percent":
            px, py = F(case["e"][2]) % 200, F(case["e"][3]) % 200
            px, py = (px if px > 0 else Fraction(50)), (py if py > 0 else Fraction(50))
            e = [Fraction(0), Fraction(0), Fraction(cw) * px / 100, Fraction(ch) * py / 100]
            doc = '<svg xmlns="http://www.w3.org/2000/svg" width="%s%%" height="%s%%" viewBox="%s"%s>%s</svg>' % (repr(float(px)), repr(float(py)), vbtext, attrs, rect)
            e = [Fraction(0), Fraction(0), Fraction(cw) * F(repr(float(px))) / 100, Fraction(ch) * F(repr(float(py))) / 100]
            kw.update(width=cw, height=ch)
        elif route == "parse-default":
            # no width/height attributes and no caller size: the element size defaults to the viewBox size
            e = [Fraction(0), Fraction(0), vb[2], vb[3]]
            doc = '<svg xmlns="http://www.w3.org/2000/svg" viewBox="%s"%s>%s</svg>' % (vbtext, attrs, rect)
        else:  # nested
            e = [F(v) * uf for v in case["e"]]
            doc = ('<svg xmlns="http://www.w3.org/2000/svg" width="1000" height="1000"><svg x="%s%s" y="%s%s" width="%s%s" height="%s%s" viewBox="%s"%s>%s</svg></svg>'
                   % (case["e"][0], unit, case["e"][1], unit, case["e"][2], unit, case["e"][3], unit, vbtext, attrs, rect))
        svg = se.SVG.parse(io.StringIO(doc), **kw)
        shapes = [x for x in svg.elements() if isinstance(x, se.Rect)]
        if len(shapes) != 1:
            return o.violation("parse:shape-missing", "expected one rect from %r, got %d" % (doc, len(shapes)))
        shape_bbox = shapes[0].bbox()
        inner = svg if route != "nested" else [x for x in svg.elements() if isinstance(x, se.SVG)][-1]
        text = inner.viewbox_transform
    sx, sy, tx, ty, align, mos = equivalent_transform(e, vb, par)
    m = se.Matrix(text) if text else se.Matrix()
    got = (float(m.a), float(m.b), float(m.c), float(m.d), float(m.e), float(m.f))
    mag_x = float(abs(e[0]) + abs(vb[0] * sx) + abs(e[2]) + abs(vb[2] * sx))
    mag_y = float(abs(e[1]) + abs(vb[1] * sy) + abs(e[3]) + abs(vb[3] * sy))
    tols = (1e-12 * float(sx) + 6e-13, 1e-15, 1e-15, 1e-12 * float(sy) + 6e-13, 1e-12 * mag_x + 6e-13, 1e-12 * mag_y + 6e-13)
    want = (float(sx), 0.0, 0.0, float(sy), float(tx), float(ty))
    names = ("scale-x", "b", "c", "scale-y", "translate-x", "translate-y")
    for g, w, t, nm in zip(got, want, tols, names):
        if abs(g - w) > t:
            return o.violation("algorithm:%s" % nm, "%s route, preserveAspectRatio=%r, element %s, viewBox %s: transform %r gives %s = %r, 8.2 gives %r" % (
                route, par, [float(v) for v in e], case["vb"], text, nm, g, w))
    # geometric predicate on the image of the viewBox rectangle under the library's matrix
    ix0, iy0 = got[0] * float(vb[0]) + got[4], got[3] * float(vb[1]) + got[5]
    ix1, iy1 = got[0] * float(vb[0] + vb[2]) + got[4], got[3] * float(vb[1] + vb[3]) + got[5]
    ex0, ey0, ex1, ey1 = float(e[0]), float(e[1]), float(e[0] + e[2]), float(e[1] + e[3])
    S = max(abs(ix0), abs(ix1), abs(iy0), abs(iy1), abs(ex0), abs(ex1), abs(ey0), abs(ey1), 1e-3)
    # the 12-decimal text limits the image accuracy to 6e-13 * |viewBox coordinate|
    tol = 1e-9 * S + 1e-11 * float(max(abs(vb[0]) + vb[2], abs(vb[1]) + vb[3]))
    iw, ih, ew_, eh_ = ix1 - ix0, iy1 - iy0, ex1 - ex0, ey1 - ey0
    if align == "none":
        if max(abs(ix0 - ex0), abs(iy0 - ey0), abs(ix1 - ex1), abs(iy1 - ey1)) > tol:
            return o.violation("geometry:none", "viewBox image %r does not equal the viewport %r" % ((ix0, iy0, ix1, iy1), (ex0, ey0, ex1, ey1)))
    else:
        if mos == "meet":
            if iw > ew_ + tol or ih > eh_ + tol:
                return o.violation("geometry:meet-overflows", "viewBox image %r larger than viewport %r" % ((iw, ih), (ew_, eh_)))
        else:
            if iw < ew_ - tol or ih < eh_ - tol:
                return o.violation("geometry:slice-uncovered", "viewBox image %r smaller than viewport %r" % ((iw, ih), (ew_, eh_)))
        if abs(iw - ew_) > tol and abs(ih - eh_) > tol:
            return o.violation("geometry:not-touching", "viewBox image %r touches the viewport %r in neither dimension" % ((iw, ih), (ew_, eh_)))
        for axis, lo, hi, elo, ehi, key in (("x", ix0, ix1, ex0, ex1, align[:4]), ("y", iy0, iy1, ey0, ey1, align[4:])):
            pos = key[1:].lower()
            if pos == "min":
                bad = abs(lo - elo) > tol
            elif pos == "max":
                bad = abs(hi - ehi) > tol
            else:
                bad = abs((lo + hi) / 2 - (elo + ehi) / 2) > tol
            if bad:
                return o.violation("geometry:alignment-%s" % axis, "align %s: viewBox image [%r, %r] vs viewport [%r, %r] on %s" % (align, lo, hi, elo, ehi, axis))
    if shape_bbox is not None:
        want_box = (min(ix0, ix1), min(iy0, iy1), max(ix0, ix1), max(iy0, iy1))
        if any(abs(a - b) > tol for a, b in zip(shape_bbox, want_box)):
            return o.violation("parse:shape-coordinates", "rect covering the viewBox parsed to %r, viewport mapping gives %r (doc %r)" % (shape_bbox, want_box, doc))
    ra, rb = e[2] / e[3], vb[2] / vb[3]
    o.nontrivial = abs(ra / rb - 1) > Fraction(1, 100)
    o.label("aspect:%s" % ("wider" if ra > rb else "taller" if ra < rb else "equal"))
    return o.ok()


def check_degenerate(case):
    se = lib.L()
    o = core.Obs()
    kind, par = case["kind"], case["par"]
    attrs = ' preserveAspectRatio="%s"' % par if par else ""
    rect = '<rect id="r" x="1" y="2" width="3" height="4"/>'
    ns = 'xmlns="http://www.w3.org/2000/svg"'
    if kind in ("incomplete-viewbox", "no-viewbox"):
        o.label("degenerate:incomplete-viewbox")
        vbtext = "0 0 100" if kind == "incomplete-viewbox" else None
        t1 = se.Viewbox.viewbox_transform(0, 0, 100, 100, 0, 0, 100, None, par)
        vb = se.Viewbox(vbtext, par) if vbtext else se.Viewbox()
        t2 = vb.transform(se.Rect(0, 0, 50, 80))
        if t1 != "" or t2 != "":
            return o.violation("incomplete-viewbox-not-identity", "incomplete viewBox gave %r / %r" % (t1, t2))
        doc = '<svg %s width="50" height="80"%s%s>%s</svg>' % (ns, (' viewBox="%s"' % vbtext) if vbtext else "", attrs, rect)
        svg = se.SVG.parse(io.StringIO(doc))
        rects = [x for x in svg.elements() if isinstance(x, se.Rect)]
        if len(rects) != 1 or any(abs(a - b) > 1e-9 for a, b in zip(rects[0].bbox(), (1, 2, 4, 6))):
            return o.violation("incomplete-viewbox-not-identity", "doc %r gave %r" % (doc, [r.bbox() for r in rects]))
        return o.ok(nontrivial=True)
    if kind.startswith("zero-viewbox") or kind == "nested-zero-viewbox":
        o.label("degenerate:zero-viewbox")
        vbtext = "0 0 0 100" if kind.endswith("width") else "0 0 100 0"
        if kind == "nested-zero-viewbox":
            doc = '<svg %s width="50" height="80"><svg width="10" height="10" viewBox="0 0 0 0"%s>%s</svg></svg>' % (ns, attrs, rect)
        else:
            doc = '<svg %s width="50" height="80" viewBox="%s"%s>%s</svg>' % (ns, vbtext, attrs, rect)
    else:
        o.label("degenerate:zero-size")
        wh = 'width="0" height="80"' if kind.endswith("width") else 'width="50" height="0"'
        doc = '<svg %s %s viewBox="0 0 10 10"%s>%s</svg>' % (ns, wh, attrs, rect)
    svg = se.SVG.parse(io.StringIO(doc))  # must not raise
    rects = [x for x in svg.elements() if isinstance(x, se.Rect)]
    if rects:
        return o.violation("zero-size-renders", "doc %r rendered %d shapes" % (doc, len(rects)))
    return o.ok(nontrivial=True)
