"""
C02 - affine maps commute with geometry for every segment, path and shape.

Cases:
  {"kind": "seg",   "seg": plain segment, "cls": label, "A": matrix, "B": matrix}
  {"kind": "path",  "segs": [...], "route": "prog"|"parse", "A": matrix, "sub": index}
  {"kind": "shape", "shape": [kind, params], "A": matrix}
Oracle: the matrix applied to the original's points by the harness' own 6-tuple arithmetic.
"""
import copy as _copy
import math

from .. import core, gen, lib
from . import c17

PROPERTY = "C02"
RULE = (
    "cases are (segments) every segment kind incl. degenerate Beziers and endpoint/centre-form arcs x two matrices from "
    "the classes identity, translate, similarity, reflection, anti-diagonal reflection, axis-aligned and rotated "
    "anisotropic scale, shear, general with positive and negative determinant (condition number <= 400); (paths) "
    "generated multi-subpath paths built programmatically or parsed, x a matrix, incl. Subpath *= M; (shapes) the basic "
    "shapes x a matrix through (shape*M).segments(), abs(Path(shape)*M) and Path(shape)*M then reify(). "
    "Non-trivial = the object is curved and the matrix is not a similarity, or det < 0; distinct by the case."
)
ASSUMPTIONS = [
    "a Matrix object handed to a constructor (transform=M) remains the caller's: two objects are built with one M, one is reified or multiplied in place, the other must still be the image under M and M itself unchanged",
    "the original's points are the library's own untransformed point(t) (their correctness is C01/C05/C06's subject); "
    "the matrix is applied by harness arithmetic",
    "arcs: tolerance grows with (aspect ratio of the arc x condition number of the matrix)^2 * 1e-15, the conditioning "
    "of recovering an eccentric angle from a point",
    "Circle/Ellipse segments(transformed=True) under matrices whose images of the unit vectors are not perpendicular, or "
    "whose determinant sign differs from the sign of a*d, is known finding KF-ROUNDSHAPE-TRANSFORMED (pinned by "
    "test_paths.py::test_issue_mk_1362); the other observations of the same shape stay in scope",
]
TOLERANCES = {"point": "1e-9 * S(image)", "arc point": "(1e-9 + 1e-15 * (ratio * cond)^2) * S(image) + 2 * closure_gap(arc) * 2|M| * ratio * cond (closure gap: how far the arc misses its own stored end points, non-zero for scaled-up radii)"}
KINDS = ["L", "Q", "C", "A"]
MANDATORY_LABELS = {"quick": ["seg:%s x %s" % (k, m) for k in KINDS for m in gen.MATRIX_CLASSES] + ["shape:%s" % s for s in ("rect", "rrect", "circle", "ellipse", "line", "polyline", "polygon")] + ["path:prog", "path:parse", "path:append", "path:subpath"]}
MANDATORY_LABELS["thorough"] = MANDATORY_LABELS["quick"]

TS = [0.0, 0.125, 0.25, 1.0 / 3.0, 0.5, 0.7, 0.875, 1.0]


def decode_seg(d):
    cls, seg = gen.segment(d, "LQCA")
    if seg[0] == "A" and d.chance(2, 8):
        # native centre form through an ellipse: extents up to beyond a full turn
        cls = "A:centre"
        seg = ["E", gen.point(d), abs(gen.loguniform(d, -1, 3, False)), abs(gen.loguniform(d, -1, 3, False)), gen.angle_deg(d),
               gen.r6(d.uniform(-7.0, 7.0)), d.choice([1e-3, 0.5, 1.0, 3.0, 3.141592653589793, 6.0, 6.283185307179586, 7.5]) * d.choice([1, -1])]
    return {"kind": "seg", "seg": seg, "cls": cls, "A": gen.matrix(d), "B": gen.matrix(d)}


def decode_path(d):
    segs = gen.path_segments(d, max_subpaths=3, max_segs=3)
    return {"kind": "path", "segs": segs, "route": d.choice(["prog", "parse", "append"]), "A": gen.matrix(d), "sub": d.below(4)}


def shape_params(d):
    kind = d.choice(["rect", "rrect", "circle", "ellipse", "line", "polyline", "polygon"])
    c = gen.small_coord
    x, y = c(d), c(d)
    w, h = abs(gen.loguniform(d, -1, 2.5, False)), abs(gen.loguniform(d, -1, 2.5, False))
    if kind == "rect":
        return [kind, [x, y, w, h, 0.0, 0.0]]
    if kind == "rrect":
        return [kind, [x, y, w, h, w / d.choice([2.5, 3.0, 4.0, 8.0]), h / d.choice([2.5, 3.0, 4.0, 8.0])]]
    if kind == "circle":
        return [kind, [x, y, w]]
    if kind == "ellipse":
        return [kind, [x, y, w, h]]
    if kind == "line":
        return [kind, [x, y, x + w, y - h]]
    return [kind, [gen.point(d, c) for _ in range(d.int(2, 6))]]


def decode_shape(d):
    return {"kind": "shape", "shape": shape_params(d), "A": gen.matrix(d)}


def parts(tier):
    n = 1200 if tier == "quick" else 20000
    return [
        core.Part("segments", "sampled", lambda: gen.cases(decode_seg, 160), budget=n),
        core.Part("paths", "sampled", lambda: gen.cases(decode_path, 512), budget=n // 3),
        core.Part("shapes", "sampled", lambda: gen.cases(decode_shape, 128), budget=n // 2),
    ]


def mk_seg(seg):
    se = lib.L()
    if seg[0] == "E":
        _, c, rx, ry, rot, t0, sweep = seg
        e = se.Ellipse(c[0], c[1], rx, ry)
        e *= "rotate(%r, %r, %r)" % (rot, c[0], c[1])
        return e.arc_t(t0, t0 + sweep)
    return lib.mk_segment(seg)


def stored_points(seg):
    k = lib.kind_of(seg)
    out = [("start", seg.start), ("end", seg.end)]
    if k == "Q":
        out.append(("control", seg.control))
    elif k == "C":
        out += [("control1", seg.control1), ("control2", seg.control2)]
    elif k == "A":
        out.append(("center", seg.center))
    return out


def cond(m):
    a, b, c, d = m[0], m[1], m[2], m[3]
    fro = a * a + b * b + c * c + d * d
    det = abs(a * d - b * c)
    k = fro / max(2.0 * det, 1e-300)
    return k + math.sqrt(max(k * k - 1.0, 0.0))


def arc_ratio(seg):
    rx, ry = seg.rx, seg.ry
    if min(rx, ry) <= 0:
        return 1.0
    return max(rx, ry) / min(rx, ry)


def closure_gap(seg):
    """how far the arc's computed curve misses its own stored end points (the library snaps t=0 and t=1 to them);
    capped: a large gap is C05's subject, not a bounding box matter"""
    if lib.kind_of(seg) != "A" or abs(seg.sweep) < 1e-12:
        return 0.0
    a, b = lib.xy(seg.point(1e-12)), lib.xy(seg.point(1.0 - 1e-12))
    s, e = lib.xy(seg.start), lib.xy(seg.end)
    g = max(abs(a[0] - s[0]), abs(a[1] - s[1]), abs(b[0] - e[0]), abs(b[1] - e[1]))
    S = max(1e-3, abs(s[0]), abs(s[1]), abs(e[0]), abs(e[1]), seg.rx, seg.ry)
    return min(g * 2.0, 1e-6 * S)


def compare_seg(o, orig, image, M, what, S=None):
    """image.point(t) must be M(orig.point(t)); stored points too.  Returns an Outcome or None."""
    k = lib.kind_of(orig)
    if lib.kind_of(image) != k:
        return o.violation("%s:kind" % what, "%s became %s" % (k, lib.kind_of(image)))
    if k in ("M", "Z") and orig.start is None:
        pts = [(1.0, orig.end)]
    mapped = []
    for t in TS:
        p = lib.xy(orig.point(t)) if not (k == "M") else lib.xy(orig.end)
        q = lib.xy(image.point(t)) if not (k == "M") else lib.xy(image.end)
        if p is None or q is None:
            return o.violation("%s:non-numeric:%s" % (what, k), "point(%r): %r -> %r" % (t, p, q))
        mapped.append((t, gen.mat_apply(M, p), q))
    Simg = max([1e-3] + [abs(v) for _, w, q in mapped for v in (w[0], w[1])])
    if S is not None:
        Simg = max(Simg, S)
    tol = 1e-9 * Simg
    if k == "A":
        amp = arc_ratio(orig) * cond(M)
        Simg = max(Simg, max(orig.rx, orig.ry) * gen.mat_norm(M) * 2.0)
        tol = (1e-9 + 1e-15 * amp * amp) * Simg
        # an arc whose stored end points miss its own ellipse (scaled-up radii: the centre is the square root of rounding
        # noise) takes its start angle from an off-ellipse point, and that projection does not commute with affine maps
        # (once for the start angle of the original, once for that of the image)
        tol += 2.0 * closure_gap(orig) * max(1.0, gen.mat_norm(M) * 2.0) * max(1.0, amp)
    for t, w, q in mapped:
        if not core.pclose(w, q, tol):
            return o.violation("%s:point:%s" % (what, k), "t=%r: image %r, matrix applied to the original point gives %r (tolerance %.3g)" % (t, q, w, tol))
    for name, p in stored_points(orig):
        if p is None:
            continue
        q = dict(stored_points(image)).get(name)
        w = gen.mat_apply(M, lib.xy(p))
        if lib.xy(q) is None or not core.pclose(lib.xy(q), w, tol):
            return o.violation("%s:stored-%s:%s" % (what, name, k), "%s %r, matrix applied to the original gives %r" % (name, lib.xy(q), w))
    if k == "A":
        det = gen.mat_det(M)
        if abs(orig.sweep) > 1e-12:
            if (image.sweep > 0) != ((orig.sweep > 0) == (det > 0)):
                return o.violation("%s:arc-orientation" % what, "sweep %r -> %r under det %r" % (orig.sweep, image.sweep, det))
            if abs(abs(image.sweep) - abs(orig.sweep)) > 1e-9:
                return o.violation("%s:arc-extent" % what, "sweep %r -> %r" % (orig.sweep, image.sweep))
    return None


def check(case):
    kind = case["kind"]
    if kind == "seg":
        return check_seg(case)
    if kind == "path":
        return check_path(case)
    return check_shape(case)


def check_seg(case):
    se = lib.L()
    o = core.Obs()
    A, B = case["A"]["m"], case["B"]["m"]
    x = mk_seg(case["seg"])
    k = lib.kind_of(x)
    o.label("seg:%s x %s" % (k, case["A"]["cls"]), "cls:%s" % case["cls"])
    if k == "A" and abs(x.sweep) < 1e-12:
        return o.excluded("degenerate arc (C05)")
    snap = [lib.xy(p) for _, p in stored_points(x)]
    mA, mB = lib.mk_matrix(A), lib.mk_matrix(B)
    y = x * mA
    if [lib.xy(p) for _, p in stored_points(x)] != snap:
        return o.violation("operand-modified", "X * M changed X")
    bad = compare_seg(o, x, y, A, "mul")
    if bad is not None:
        return bad
    # in-place form
    z = _copy.copy(x)
    z *= mA
    bad = compare_seg(o, x, z, A, "imul")
    if bad is not None:
        return bad
    # composition
    AB = gen.mat_mul(A, B)
    yb = y * mB
    yab = x * (mA * mB)
    bad = compare_seg(o, x, yb, AB, "compose:(X*A)*B")
    if bad is not None:
        return bad
    bad = compare_seg(o, x, yab, AB, "compose:X*(A*B)")
    if bad is not None:
        return bad
    curved = k in ("Q", "C", "A")
    o.nontrivial = (curved and not gen.matrix_is_similarity(A)) or gen.mat_det(A) < 0
    return o.ok()


def check_path(case):
    se = lib.L()
    o = core.Obs()
    A = case["A"]["m"]
    mA = lib.mk_matrix(A)
    o.label("path:%s" % case["route"], "mat:%s" % case["A"]["cls"])
    def build():
        if case["route"] == "prog":
            return lib.mk_path(case["segs"])
        if case["route"] == "append":
            # assembled piece by piece with segments that have no start of their own: the path links them
            b = se.Path()
            for sg in case["segs"]:
                if sg[0] == "M":
                    b.append(se.Move(se.Point(*sg[1])))
                elif sg[0] == "Z":
                    b.append(se.Close())
                else:
                    x = lib.mk_segment(sg)
                    if len(b):
                        x.start = None
                    b.append(x)
            return b
        return se.Path(lib.path_text_of(case["segs"], "%r"))

    p = build()
    orig = [_copy.copy(s) for s in p]
    # abs(path * M)
    q = abs(p * mA)
    if len(q) != len(orig):
        return o.violation("path:segment-count", "%d -> %d segments" % (len(orig), len(q)))
    if not q.transform.is_identity():
        return o.violation("path:reify-keeps-transform", "abs(path*M).transform = %r" % (q.transform,))
    for i, (a, b) in enumerate(zip(orig, q)):
        bad = compare_seg(o, a, b, A, "abs(path*M)")
        if bad is not None:
            bad.detail = "segment %d: %s" % (i, bad.detail)
            return bad
    # the source is untouched
    for a, b in zip(orig, p):
        if c17.snapshot([a]) != c17.snapshot([b]):
            return o.violation("path:operand-modified", "path * M changed the path")
    # in place: *= then reify - on a copy, and on a second instance built the same way (a copy would hide points that
    # the construction left shared between neighbouring segments)
    for what, r in (("copy(path)*=M;reify", _copy.copy(p)), ("path*=M;reify", build())):
        r *= mA
        r.reify()
        if len(r) != len(orig):
            return o.violation("path:segment-count", "%s: %d -> %d segments" % (what, len(orig), len(r)))
        for i, (a, b) in enumerate(zip(orig, r)):
            bad = compare_seg(o, a, b, A, what)
            if bad is not None:
                bad.detail = "segment %d: %s" % (i, bad.detail)
                return bad
    # the transform handed to the constructor as a Matrix object the caller goes on using: two paths carry it, one is
    # reified (or multiplied in place) - the other still carries M, and the caller's matrix still is M
    mobj = lib.mk_matrix(A)
    coeffs = lambda m: (m.a, m.b, m.c, m.d, m.e, m.f)
    before = coeffs(mobj)
    one = se.Path(*[_copy.copy(s) for s in orig], transform=mobj)
    two = se.Path(*[_copy.copy(s) for s in orig], transform=mobj)
    if case["sub"] % 2:
        one.reify()
    else:
        one *= lib.mk_matrix([2.0, 0.0, 0.0, 0.5, 1.0, -3.0])
    o.label("path:carried-matrix-object")
    if coeffs(mobj) != before:
        return o.violation("path:constructor-matrix-modified", "Path(..., transform=M) then %s: the caller's M is now %r" % ("reify()" if case["sub"] % 2 else "*= N", coeffs(mobj)))
    two.reify()
    for i, (a, b) in enumerate(zip(orig, two)):
        bad = compare_seg(o, a, b, A, "Path(transform=M).reify()")
        if bad is not None:
            bad.detail = "segment %d: %s (another path built with the same Matrix object was changed in place before)" % (i, bad.detail)
            return bad
    # the carried transform applied once more, in place, with the object's own matrix as the operand
    again = build()
    again *= mA
    again *= again.transform
    again.reify()
    AA = gen.mat_mul(A, A)
    o.label("path:own-transform-again")
    for i, (a, b) in enumerate(zip(orig, again)):
        bad = compare_seg(o, a, b, AA, "path*=M; path*=path.transform; reify")
        if bad is not None:
            bad.detail = "segment %d: %s" % (i, bad.detail)
            return bad
    # lazily transformed segments
    lazy = (p * mA).segments(transformed=True)
    for i, (a, b) in enumerate(zip(orig, lazy)):
        bad = compare_seg(o, a, b, A, "(path*M).segments()")
        if bad is not None:
            bad.detail = "segment %d: %s" % (i, bad.detail)
            return bad
    # Subpath *= M moves exactly that window
    w = _copy.copy(p)
    subs = list(w.as_subpaths())
    if subs:
        o.label("path:subpath")
        idx = case["sub"] % len(subs)
        sp = subs[idx]
        lo = sum(len(x) for x in subs[:idx])  # subpath views are consecutive windows of the backing path
        hi = lo + len(sp) - 1
        sp *= mA
        for i, (a, b) in enumerate(zip(orig, w)):
            if lo <= i <= hi:
                bad = compare_seg(o, a, b, A, "subpath*=M")
                if bad is not None:
                    bad.detail = "segment %d (window %d..%d): %s" % (i, lo, hi, bad.detail)
                    return bad
            else:
                # outside the window only a start that was linked to the moved end may follow it
                pa = [lib.xy(x) for n, x in stored_points(a) if n != "start"]
                pb = [lib.xy(x) for n, x in stored_points(b) if n != "start"]
                if pa != pb:
                    return o.violation("subpath*=M:outside-window", "segment %d outside window %d..%d changed: %r -> %r" % (i, lo, hi, pa, pb))
    curved = any(s[0] in "QCA" for s in case["segs"])
    o.nontrivial = (curved and not gen.matrix_is_similarity(A)) or gen.mat_det(A) < 0
    return o.ok()


def roundshape_known_class(M):
    a, b, c, d = M[0], M[1], M[2], M[3]
    n1, n2 = math.hypot(a, b), math.hypot(c, d)
    nonperp = abs(a * c + b * d) > 1e-9 * n1 * n2
    det = a * d - b * c
    wrongdir = (det < 0) != (a * d < 0)
    return nonperp or wrongdir


def check_shape(case):
    se = lib.L()
    o = core.Obs()
    A = case["A"]["m"]
    mA = lib.mk_matrix(A)
    kind = case["shape"][0]
    o.label("shape:%s" % kind, "shape:%s x %s" % (kind, case["A"]["cls"]))
    shape = c17.mk_shape(["rect" if kind == "rrect" else kind, case["shape"][1]])
    orig = [_copy.copy(s) for s in shape.segments(transformed=False)]
    if not orig:
        return o.excluded("degenerate shape")
    known = None
    observations = [
        ("abs(Path(shape)*M)", lambda: list(abs(se.Path(shape) * mA))),
        ("Path(shape)*M;reify", lambda: list((se.Path(shape) * mA).reify())),
        ("(shape*M).segments()", lambda: list((shape * mA).segments())),
        ("abs(shape*M).segments()", lambda: list(abs(shape * mA).segments())),
    ]
    for what, f in observations:
        got = f()
        bad = None
        if len(got) != len(orig):
            bad = o.violation("%s:segment-count" % what, "%d segments, decomposition has %d" % (len(got), len(orig)))
        else:
            for i, (a, b) in enumerate(zip(orig, got)):
                bad = compare_seg(o, a, b, A, what)
                if bad is not None:
                    bad.detail = "%s %r segment %d: %s" % (kind, case["shape"][1], i, bad.detail)
                    break
        if bad is not None:
            if kind in ("circle", "ellipse") and "shape*M" in what and "Path" not in what and roundshape_known_class(A):
                known = bad
                continue
            return bad
    # the transform handed to the constructor as a Matrix object, shared by two shapes (see check_path)
    mobj = lib.mk_matrix(A)
    coeffs = lambda m: (m.a, m.b, m.c, m.d, m.e, m.f)
    before = coeffs(mobj)
    spec = ["rect" if kind == "rrect" else kind, case["shape"][1]]
    one, two = c17.mk_shape(spec, transform=mobj), c17.mk_shape(spec, transform=mobj)
    one.reify()
    one *= lib.mk_matrix([2.0, 0.0, 0.0, 0.5, 1.0, -3.0])
    o.label("shape:carried-matrix-object")
    if coeffs(mobj) != before:
        return o.violation("shape:constructor-matrix-modified", "%s(..., transform=M) then reify() and *= N: the caller's M is now %r" % (kind, coeffs(mobj)))
    got = list(abs(se.Path(two)))
    if len(got) != len(orig):
        return o.violation("shape:carried-matrix:segment-count", "%d segments, decomposition has %d" % (len(got), len(orig)))
    for i, (a, b) in enumerate(zip(orig, got)):
        bad = compare_seg(o, a, b, A, "abs(Path(shape(transform=M)))")
        if bad is not None:
            bad.detail = "%s %r segment %d: %s (another shape built with the same Matrix object was changed in place before)" % (kind, case["shape"][1], i, bad.detail)
            return bad
    if known is not None:
        return o.known("KF-ROUNDSHAPE-TRANSFORMED", known.detail)
    curved = kind in ("rrect", "circle", "ellipse")
    o.nontrivial = (curved and not gen.matrix_is_similarity(A)) or gen.mat_det(A) < 0
    return o.ok()
