"""
C20 - writing a document and parsing it back preserves shapes and paint.

Cases: {"kind": "doc", "doc": document AST, "reify": bool, "route": "string"|"file"|"svgz"}
       {"kind": "tree", "shapes": [[shape params, matrix|None, fill, stroke, width]...], "group": matrix|None,
        "viewbox": text|None, "route": ...}
Oracle: round trip.  G1 = the source tree, T1 = write(G1), G2 = parse(T1), T2 = write(G2), G3 = parse(T2):
        T1 and T2 are well-formed XML (xml.etree); G2 has G1's rendered shapes in order with the same ids, paint and
        geometry within the six-decimal bound of the written matrices; G3 equals G2 under the same bound (stability).
"""
import gzip
import io
import math
import re
import os
import tempfile
import xml.etree.ElementTree as ET

from .. import core, docgen, gen, lib
from . import c02, c03, c07, c10, c17

PROPERTY = "C20"
RULE = (
    "cases are (documents) C03's generated documents with explicit paint on some elements, parsed with reify True/False, "
    "(trees) SVG/Group trees built through the constructors containing every shape kind with explicit fill and stroke, "
    "transforms of either determinant sign placed on the shapes or applied through group *= M, with or without a "
    "viewBox; written with string_xml() or write_xml() to a plain and a gzip file. Non-trivial = a document with a "
    "viewBox or a non-identity shape transform and >= 2 shapes; distinct by the case."
)
ASSUMPTIONS = [
    'fill-opacity and stroke-opacity are generated on every level including values of exactly 1 (a shape resetting what its container says)',
    "geometry bound: 2e-6 x (1 + |local coordinates|) x max(1, |viewport linear part|) per coordinate (matrices are written "
    "with six decimals), plus the 12-digit bound of path data; arcs additionally carry the six-digit radii of C07's "
    "known finding and are compared at 1e-5 relative",
    "a shape whose written matrix rounds to zero at six decimals (accumulated scale below 5e-7) is outside the precision the "
    "property grants and is excluded (counted)",
    "programmatic shapes with fill=None / stroke=None are not generated ('unspecified' is written as nothing and read back "
    "as the default paint); the re-parse uses the default configuration",
    "inch-family use offsets / translations (KF-TRANSFORM-MIXED-UNITS) are not generated",
]
TOLERANCES = {"geometry": "2e-6 * (1 + S_local) * max(1, |vt|) + 1e-9 * S", "alpha": "0.5 / 255 + 1/255 (opacity written as a decimal)", "stroke width": "1e-5 relative"}
MANDATORY_LABELS = {"quick": ["kind:doc", "kind:tree", "route:string", "route:file", "route:svgz", "has:viewbox", "has:use", "has:nested-svg", "reify:True", "reify:False", "det:negative"]}
MANDATORY_LABELS["thorough"] = MANDATORY_LABELS["quick"]


def decode_doc(d):
    doc = docgen.build_doc(d, {"max_elements": 14, "caller": False})
    for n, _ in docgen.walk(doc["root"]):
        if n["tag"] == "defs":
            continue
        # (paints whose alpha is exactly zero in the colour value itself, not in an opacity attribute)
        if d.chance(3, 8):
            n["attrs"]["fill"] = d.choice(docgen.PALETTE + ["none", "transparent", "rgba(255,0,0,0)", "#0000ff00"])
        if d.chance(3, 8):
            n["attrs"]["stroke"] = d.choice(docgen.PALETTE + ["none", "transparent", "rgba(0,128,0,0)", "#ff000000"])
        if d.chance(2, 8):
            n["attrs"]["stroke-width"] = d.choice(["2", "0.5", "3", "1.5"])
        # (an opacity of 1 on a shape resets what a container above it says)
        if d.chance(2, 8):
            n["attrs"]["fill-opacity"] = d.choice(["0.5", "0.25", "1", "0.4", "1.0"])
        if d.chance(2, 8):
            n["attrs"]["stroke-opacity"] = d.choice(["0.5", "0.75", "1", "0.4", "1"])
    return {"kind": "doc", "doc": doc, "reify": d.bool(), "route": d.choice(["string", "string", "file", "svgz"])}


def decode_tree(d):
    shapes = []
    for _ in range(d.int(1, 4)):
        sp = c02.shape_params(d)
        shapes.append([sp, gen.matrix(d)["m"] if d.bool() else None, d.choice(docgen.PALETTE + ["none"]), d.choice(docgen.PALETTE + ["none"]), d.choice([1.0, 2.0, 0.5, 3.25]),
                       # how the paint reaches the shape: attributes set afterwards / constructor keywords / keywords with a
                       # translucent Color and a python-style opacity keyword / keywords, then the alpha edited on the object
                       d.choice(["attr", "attr", "kwargs", "kwargs+opacity", "edited"]), d.choice([0.5, 0.25, 0.75, 0.4, 0.0]), d.choice([0.5, 0.25, 0.8, 0.0])])
    vb = None
    if d.bool():
        vb = "%s %s %s %s" % (docgen.fmtn(docgen.num(d, -20, 20)), docgen.fmtn(docgen.num(d, -20, 20)), docgen.fmtn(max(docgen.num(d, 20, 400), 1.0)), docgen.fmtn(max(docgen.num(d, 20, 400), 1.0)))
    return {"kind": "tree", "shapes": shapes, "group": gen.matrix(d)["m"] if d.chance(3, 8) else None, "nest": d.bool(), "viewbox": vb,
            "size": [max(docgen.num(d, 50, 500), 1.0), max(docgen.num(d, 50, 500), 1.0)], "route": d.choice(["string", "string", "file", "svgz"])}


def parts(tier):
    n = 700 if tier == "quick" else 4000
    return [
        core.Part("documents", "sampled", lambda: gen.cases(decode_doc, 1024), budget=n),
        core.Part("trees", "sampled", lambda: gen.cases(decode_tree, 512), budget=n),
    ]


def write_out(tree, route):
    """-> text of the written document"""
    if route == "string":
        return tree.string_xml()
    tmp = tempfile.mkdtemp(prefix="c20_")
    path = os.path.join(tmp, "out.svgz" if route == "svgz" else "out.svg")
    try:
        tree.write_xml(path)
        if route == "svgz":
            with gzip.open(path, "rb") as f:
                return f.read().decode("utf-8")
        with open(path, "rb") as f:
            return f.read().decode("utf-8")
    finally:
        try:
            os.remove(path)
        except OSError:
            pass
        os.rmdir(tmp)


def shape_record(e):
    se = lib.L()
    segs = list(abs(se.Path(e)))
    pts = []
    amp = 1.0
    arcbound = 0.0
    for s in segs:
        k = lib.kind_of(s)
        if k == "A" and abs(s.sweep) > 1e-12:
            amp = max(amp, c02.arc_ratio(s))
            arcbound = max(arcbound, c07.arc_bound(s, 6e-6))
        pts.append((k, [lib.xy(s.end)] if k == "M" else [lib.xy(s.point(t)) for t in (0.0, 0.25, 0.5, 0.75, 1.0)]))
    local = lib.scale_of([[lib.xy(p) for p in s if p is not None] for s in e.segments(transformed=False)] or [0.0])
    m = e.transform
    det = abs(float(m.a) * float(m.d) - float(m.b) * float(m.c))
    paint = {}
    for key in ("fill", "stroke"):
        c = getattr(e, key)
        paint[key] = None if (c is None or c.value is None) else (c.red, c.green, c.blue, c.alpha)
    lin = abs(float(m.a)) + abs(float(m.b)) + abs(float(m.c)) + abs(float(m.d))
    return {"id": e.id, "pts": pts, "local": local, "paint": paint, "lin": lin, "det": det, "amp": amp, "arcbound": arcbound, "is_path": isinstance(e, se.Path), "width": None if e.stroke_width is None else e.stroke_width * math.sqrt(det), "arcs": any(k == "A" for k, _ in pts)}


ZERO_MATRIX = re.compile(r"matrix\(-?0\.000000, -?0\.000000, -?0\.000000, -?0\.000000,")


def compare(o, a, b, what, vt_norm, source_text):
    """records of generation n vs n+1"""
    if [r["id"] for r in a] != [r["id"] for r in b]:
        if ZERO_MATRIX.search(source_text):
            # a scale below 5e-7 is written as a zero matrix: outside the six-decimal precision the property grants
            return o.excluded("a written matrix rounds to zero at six decimals")
        return o.violation("%s:shapes" % what, "shapes %r became %r\n  written: %s" % ([r["id"] for r in a], [r["id"] for r in b], source_text))
    for ra, rb in zip(a, b):
        for key in ("fill", "stroke"):
            pa, pb = ra["paint"][key], rb["paint"][key]
            if (pa is None) != (pb is None) or (pa is not None and (pa[:3] != pb[:3] or abs(pa[3] - pb[3]) > 1.5)):
                return o.violation("%s:%s" % (what, key), "shape %r %s %r became %r\n  written: %s" % (ra["id"], key, pa, pb, source_text))
        painted = ra["paint"]["stroke"] is not None
        # the matrix is written with six decimals: sqrt|det| is known to about 5e-7 * (|a|+|b|+|c|+|d|) / |det| relative
        wrel = 1e-9 + 2e-6 * max(1.0, vt_norm) * ra["lin"] / max(ra["det"], 1e-300)
        if painted and (ra["width"] is None or rb["width"] is None or abs(ra["width"] - rb["width"]) > wrel * max(ra["width"], 1e-3)):
            return o.violation("%s:stroke-width" % what, "shape %r effective stroke width %r became %r\n  written: %s" % (ra["id"], ra["width"], rb["width"], source_text))
        if [k for k, _ in ra["pts"]] != [k for k, _ in rb["pts"]]:
            return o.violation("%s:segment-kinds" % what, "shape %r: %s became %s\n  written: %s" % (ra["id"], "".join(k for k, _ in ra["pts"]), "".join(k for k, _ in rb["pts"]), source_text))
        S = max(1e-3, lib.scale_of([p for _, ps in ra["pts"] for p in ps]))
        tol = 2e-6 * (1.0 + max(ra["local"], rb["local"])) * max(1.0, vt_norm) + 1e-9 * S
        if ra["arcs"]:
            # pointwise comparison of an eccentric arc: a relative perturbation of the matrix (six decimals) or of the
            # radii (six digits in path data) shifts the parameter by that perturbation times the aspect ratio
            tol += 1e-5 * S * max(ra["amp"], rb["amp"])
        for (k, pa), (_, pb) in zip(ra["pts"], rb["pts"]):
            for p, q in zip(pa, pb):
                if p is not None and q is not None and k == "A" and (ra["is_path"] or rb["is_path"]) and not core.pclose(p, q, tol) \
                        and core.pclose(p, q, tol + 2.0 * max(ra["arcbound"], rb["arcbound"])):
                    # an arc written as path data: six significant digits of radii and rotation (C07's known finding)
                    o.known_detail = "shape %r: arc moved from %r to %r through the six-digit arc writer" % (ra["id"], p, q)
                    continue
                if p is None or q is None or not core.pclose(p, q, tol):
                    return o.violation("%s:geometry" % what, "shape %r (%s) moved from %r to %r (bound %.3g)\n  written: %s" % (ra["id"], k, p, q, tol, source_text))
    return None


def vt_norm_of(svg):
    se = lib.L()
    n = 1.0
    for e in svg.elements():
        if isinstance(e, se.SVG):
            t = e.viewbox_transform
            if t:
                m = se.Matrix(t)
                # nested viewports multiply: an upper bound of any chain is the product over all svg elements
                n *= max(1.0, abs(float(m.a)), abs(float(m.d)))
    return n


def build_tree(case):
    se = lib.L()
    kw = {"width": case["size"][0], "height": case["size"][1]}
    if case["viewbox"]:
        kw["viewBox"] = case["viewbox"]
    root = se.SVG(**kw)
    g = se.Group()
    inner = se.Group() if case["nest"] else g
    for i, spec in enumerate(case["shapes"]):
        sp, m, fill, stroke, width = spec[:5]
        route, a0, a1 = (spec[5], spec[6], spec[7]) if len(spec) > 5 else ("attr", 1.0, 1.0)
        params = ["rect" if sp[0] == "rrect" else sp[0], sp[1]]
        if route == "attr":
            s = c17.mk_shape(params)
            s.fill = se.Color(fill)
            s.stroke = se.Color(stroke)
            s.stroke_width = width
            s.id = "s%d" % i
        elif route == "kwargs":
            s = c17.mk_shape(params, fill=fill, stroke=stroke, stroke_width=width, id="s%d" % i)
        elif route == "kwargs+opacity":
            kw = {"fill": fill if fill == "none" else se.Color(fill, a0), "stroke": stroke if stroke == "none" else se.Color(stroke, a0), "stroke_width": width, "id": "s%d" % i,
                  "fill_opacity": a1, "stroke_opacity": a1}
            s = c17.mk_shape(params, **kw)
        else:
            s = c17.mk_shape(params, fill=fill, stroke=stroke, stroke_width=width, id="s%d" % i, fill_opacity=a1)
            if s.fill is not None and s.fill.value is not None:
                s.fill.opacity = a0
            if s.stroke is not None and s.stroke.value is not None:
                s.stroke.opacity = a0
        if m is not None:
            s *= lib.mk_matrix(m)
        (inner if i % 2 else g).append(s)
    if case["nest"]:
        g.append(inner)
    if case["group"] is not None:
        g *= lib.mk_matrix(case["group"])
    root.append(g)
    return root


def check(case):
    se = lib.L()
    o = core.Obs()
    o.known_detail = None
    o.label("kind:%s" % case["kind"], "route:%s" % case["route"])
    if case["kind"] == "doc":
        doc = case["doc"]
        doc["config"]["reify"] = case["reify"]
        o.label("reify:%s" % case["reify"])
        feats, depth = c03.features(doc, core.Obs())
        for f in ("has:use", "has:nested-svg"):
            if f in feats:
                o.label(f)
        if "viewBox" in doc["root"]["attrs"]:
            o.label("has:viewbox")
        text0 = docgen.to_xml(doc)
        g1 = c03.parse(doc, case["reify"], text0)
        if g1 is None:
            return o.excluded("nothing rendered")
        source = text0
    else:
        g1 = build_tree(case)
        if case["viewbox"]:
            o.label("has:viewbox")
        source = repr(case)[:300]
        if any((m is not None and gen.mat_det(m) < 0) for m in [sp_[1] for sp_ in case["shapes"]]) or (case["group"] is not None and gen.mat_det(case["group"]) < 0):
            o.label("det:negative")
    r1 = [shape_record(e) for e in c03.shapes_of(g1)]
    if case["kind"] == "doc" and any(gen.mat_det((float(e.transform.a), float(e.transform.b), float(e.transform.c), float(e.transform.d), 0, 0)) < 0 for e in c03.shapes_of(g1)):
        o.label("det:negative")
    t1 = write_out(g1, case["route"])
    try:
        ET.fromstring(t1)
    except ET.ParseError as e:
        return o.violation("not-well-formed", "written text is not well-formed XML (%s): %s" % (e, t1[:400]))
    g2 = se.SVG.parse(io.StringIO(t1))
    if g2 is None:
        if r1:
            return o.violation("gen2:shapes", "the written document renders nothing\n  written: %s" % t1)
        return o.ok(nontrivial=False)
    r2 = [shape_record(e) for e in c03.shapes_of(g2)]
    vn = max(vt_norm_of(g2), vt_norm_of(g1) if isinstance(g1, se.SVG) else 1.0)
    bad = compare(o, r1, r2, "gen1->gen2", vn, t1)
    if bad is not None:
        bad.detail = "%s\n  source: %s" % (bad.detail, source)
        return bad
    t2 = write_out(g2, "string")
    try:
        ET.fromstring(t2)
    except ET.ParseError as e:
        return o.violation("not-well-formed:gen2", "second-generation text is not well-formed XML (%s)" % e)
    g3 = se.SVG.parse(io.StringIO(t2))
    r3 = [shape_record(e) for e in c03.shapes_of(g3)] if g3 is not None else []
    bad = compare(o, r2, r3, "gen2->gen3", vn, t2)
    if bad is not None:
        bad.detail = "%s\n  first generation: %s" % (bad.detail, t1)
        return bad
    o.nontrivial = len(r1) >= 2
    if o.known_detail is not None:
        return o.known("KF-ARC-D-6DIGITS", o.known_detail)
    return o.ok()
