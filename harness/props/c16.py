"""
C16 - reverse() traces the same geometry backwards and is an involution.

Case: {"segs": plain path, "ops": [["rev"] | ["revsub", i] | ["mul", matrix]], "move_led": bool}
Model: the path as a list of subpaths, each a list of (kind, evaluator) with the evaluators taken from copies of the
       original segments; reverse = reverse the order of subpaths and of the drawn segments of each, every evaluator
       composed with t -> 1 - t; a closed subpath keeps its close as its last segment.  After every operation the
       library path is compared with the model (a model-based / stateful check: the operation list is the history).
"""
import copy as _copy

from .. import core, gen, lib
from . import c02, c08, c17

PROPERTY = "C16"
RULE = (
    "cases are generated paths of 1..4 subpaths (open, closed with zero and non-zero closes, single-segment, "
    "move-only, all segment kinds, and subpaths retracing a few vertices so that value-equal and mutually reversed "
    "segments occur at arbitrary, also mirrored, positions) with a history of 1..6 operations drawn from: reverse the whole path, reverse "
    "subpath i, multiply by a similarity/reflection and reify, multiply subpath i in place through its view; in a third "
    "of the cases the path is measured (length, point, bbox) before every step; the library path is compared with the model after "
    "every step. Non-trivial = >= 2 subpaths or a closed subpath with a non-zero close, containing a curve; distinct "
    "by the case."
)
ASSUMPTIONS = [
    "a closed subpath M a .. Z reverses to M c .. Z where c is the point the close started from: same segments, each "
    "reversed, traced in the opposite cyclic order, the close staying the close",
    "subpaths that have no move of their own (a drawn segment directly after a close, a path fragment without a leading "
    "move, adjacent closes) are known finding KF-REVERSE-NO-MOVE; they are generated in a separate part and only "
    "reported under that finding",
    "Move.start is informational and ignored",
    "multiplying a subpath in place through its view is not applied to paths that contain a move-only subpath: the "
    "start recorded by the following move is then out of date (test_subpath_imult_sideeffect pins that it scales with "
    "its own subpath) and a later reverse re-links the lone move to it; a lone move draws nothing",
]
TOLERANCES = {"point": "1e-9 * S", "arc point": "(1e-9 + 1e-15 * ratio^2) * S + max(4, ratio) * closure_gap(arc)"}
MANDATORY_LABELS = {"quick": ["op:rev", "op:revsub", "op:mul", "op:submul", "shape:closed-nonzero", "shape:closed-zero", "shape:open", "shape:multi", "shape:repeated-segment", "history:double-reverse", "history:measured", "history:fluent"]}
MANDATORY_LABELS["thorough"] = MANDATORY_LABELS["quick"]

TS = [0.0, 0.2, 0.5, 0.8, 1.0]
ISO = ["similarity", "reflection", "translate", "antidiagonal"]


def retraced(d):
    """a subpath that walks back and forth over a few vertices, so that value-equal segments (the same edge drawn
    again in the same direction) and mutually reversed ones occur at arbitrary positions, mirrored ones included"""
    nv = d.int(2, 4)
    verts = []
    for i in range(nv):
        p = gen.point(d, gen.small_coord)
        if p in verts:  # (an exhausted data provider repeats itself: make the vertex distinct by construction)
            p = [p[0] + float(i), p[1] + 1.0]
        verts.append(p)
    kinds = {}

    def edge(i, j):
        a, b = verts[i], verts[j]
        if (i, j) not in kinds:
            kinds[(i, j)] = d.choice(["L", "L", "Q", "C", "A"])
        k = kinds[(i, j)]
        dx, dy = b[0] - a[0], b[1] - a[1]
        mx, my = (a[0] + b[0]) / 2.0, (a[1] + b[1]) / 2.0
        if k == "L":
            return ["L", list(a), list(b)]
        if k == "Q":
            return ["Q", list(a), [mx - dy / 4.0, my + dx / 4.0], list(b)]
        if k == "C":
            return ["C", list(a), [a[0] - dy / 4.0, a[1] + dx / 4.0], [b[0] - dy / 4.0, b[1] + dx / 4.0], list(b)]
        r = max(abs(dx), abs(dy), 1e-3)
        return ["A", list(a), r, r * 0.75, 30.0, 0, 1, list(b)]

    at = d.below(nv)
    out = [["M", list(verts[at])]]
    for _ in range(d.int(2, 6)):
        nxt = d.below(nv - 1)
        if nxt >= at:
            nxt += 1
        out.append(edge(at, nxt))
        at = nxt
    if d.bool():
        out.append(["Z"])
    return out


def decode(d, move_led=True):
    segs = gen.path_segments(d, max_subpaths=4, max_segs=3, c=gen.small_coord, move_led=move_led)
    if move_led and d.chance(1, 4):
        r = retraced(d)
        segs = r if d.bool() else (r + gen.path_segments(d, max_subpaths=2, max_segs=3, c=gen.small_coord, move_led=True) if d.bool() else gen.path_segments(d, max_subpaths=2, max_segs=3, c=gen.small_coord, move_led=True) + r)
    if not move_led and d.chance(1, 4) and segs and segs[-1][0] == "Z":
        segs.append(["Z"])
    ops = []
    for _ in range(d.int(1, 6)):
        k = d.choice(["rev", "rev", "revsub", "revsub", "mul", "submul"] if move_led else ["rev", "rev", "revsub", "revsub", "mul"])
        if k == "rev":
            ops.append(["rev"])
        elif k == "revsub":
            ops.append(["revsub", d.below(4)])
        elif k == "submul":
            ops.append(["submul", d.below(4), gen.matrix(d, classes=ISO)])
        else:
            ops.append(["mul", gen.matrix(d, classes=ISO)])
    if d.chance(1, 4):
        ops = [["rev"], ["rev"]] if d.bool() else [["revsub", d.below(4)], ["revsub", 0]]
        ops[1][1:] = ops[0][1:]
    return {"segs": segs, "ops": ops, "move_led": move_led, "measure": d.chance(1, 3), "fluent": d.chance(1, 3)}


def parts(tier):
    n = 1500 if tier == "quick" else 12000
    return [
        core.Part("move-led", "sampled", lambda: gen.cases(lambda d: decode(d, True), 640), budget=n),
        core.Part("no-own-move", "sampled", lambda: gen.cases(lambda d: decode(d, False), 640), budget=n // 5),
    ]


# ---- model -------------------------------------------------------------------------------------------------------


class MSeg(object):
    __slots__ = ("kind", "f")

    def __init__(self, kind, f):
        self.kind = kind
        self.f = f

    def reversed(self):
        f = self.f
        return MSeg(self.kind, lambda t: f(1.0 - t))

    def mapped(self, M):
        f = self.f
        return MSeg(self.kind, lambda t: gen.mat_apply(M, f(t)))


def model_of(path):
    """library path -> list of subpaths; a subpath is {"move": MSeg|None, "drawn": [MSeg], "close": MSeg|None}"""
    subs = []
    cur = None
    for seg in path:
        k = lib.kind_of(seg)
        s = _copy.copy(seg)
        if k == "M":
            if cur is not None:
                subs.append(cur)
            e = lib.xy(s.end)
            cur = {"move": MSeg("M", lambda t, e=e: e), "drawn": [], "close": None, "own_move": True}
            continue
        if cur is None:
            cur = {"move": None, "drawn": [], "close": None, "own_move": False}
        if k == "Z":
            a, b = lib.xy(s.start), lib.xy(s.end)
            cur["close"] = MSeg("Z", lambda t, a=a, b=b: (a[0] + t * (b[0] - a[0]), a[1] + t * (b[1] - a[1])))
            subs.append(cur)
            cur = None
        else:
            cur["drawn"].append(MSeg(k, c08.fast_eval(s)))
    if cur is not None:
        subs.append(cur)
    return subs


def model_reverse_sub(sub):
    out = {"own_move": sub["own_move"], "close": None, "move": None}
    drawn = [m.reversed() for m in reversed(sub["drawn"])]
    if sub["close"] is not None:
        out["close"] = sub["close"].reversed()
        first_point = sub["close"].f(0.0)  # where the close started: the new subpath begins there
    elif sub["drawn"]:
        first_point = sub["drawn"][-1].f(1.0)
    else:
        first_point = sub["move"].f(0.0) if sub["move"] else None
    out["drawn"] = drawn
    if sub["move"] is not None:
        out["move"] = MSeg("M", lambda t, p=first_point: p)
    return out


def model_flat(subs):
    flat = []
    for s in subs:
        if s["move"] is not None:
            flat.append(s["move"])
        flat.extend(s["drawn"])
        if s["close"] is not None:
            flat.append(s["close"])
    return flat


def compare(o, path, subs, S, where):
    flat = model_flat(subs)
    kinds = [lib.kind_of(s) for s in path]
    if kinds != [m.kind for m in flat]:
        return o.violation("kinds", "%s: library %s, model %s" % (where, "".join(kinds), "".join(m.kind for m in flat)))
    tol = 1e-9 * S
    prev_end = None
    sub_start = None
    for i, (seg, m) in enumerate(zip(path, flat)):
        k = m.kind
        if k == "M":
            e = lib.xy(seg.end)
            if e is None or not core.pclose(e, m.f(0.0), tol):
                return o.violation("move-target", "%s: segment %d move to %r, model %r" % (where, i, e, m.f(0.0)))
            sub_start = e
            prev_end = e
            continue
        if lib.xy(seg.start) is None or lib.xy(seg.end) is None:
            return o.violation("lost-point", "%s: segment %d (%s) has start %r end %r" % (where, i, k, seg.start, seg.end))
        stol = tol
        if k == "A" and abs(seg.sweep) > 1e-12:
            r = c02.arc_ratio(seg)
            # an arc whose radii had to be scaled up misses its own end points by the square root of rounding noise
            # (see C05); reversing it re-anchors the parameter at the other end: the start angle is then taken from the
            # other off-ellipse end point, an error of gap / (smaller radius) in the parameter, i.e. gap * ratio in space
            stol = (1e-9 + 1e-15 * r * r) * max(S, seg.rx, seg.ry) + max(4.0, r) * c08.closure_gap(seg)
        for t in TS:
            p = lib.xy(seg.point(t))
            w = m.f(t)
            if p is None or not core.pclose(p, w, stol):
                return o.violation("geometry:%s" % k, "%s: segment %d (%s) point(%r) = %r, model %r" % (where, i, k, t, p, w))
        if prev_end is not None and not core.pclose(lib.xy(seg.start), prev_end, tol):
            return o.violation("connectivity", "%s: segment %d (%s) starts at %r, predecessor ended at %r" % (where, i, k, lib.xy(seg.start), prev_end))
        if k == "Z" and sub_start is not None and not core.pclose(lib.xy(seg.end), sub_start, tol):
            return o.violation("close-target", "%s: close %d ends at %r, its subpath starts at %r" % (where, i, lib.xy(seg.end), sub_start))
        prev_end = lib.xy(seg.end)
    return None


def check(case):
    se = lib.L()
    o = core.Obs()
    p = lib.mk_path(case["segs"])
    original = _copy.copy(p)
    subs = model_of(p)
    S = lib.scale_of(case["segs"])
    no_move = any(not s["own_move"] for s in subs) or any(a[0] == "Z" and b[0] == "Z" for a, b in zip(case["segs"], case["segs"][1:]))
    shapes = set()
    for s in subs:
        if s["close"] is not None:
            a, b = s["close"].f(0.0), s["close"].f(1.0)
            shapes.add("closed-zero" if core.pclose(a, b, 1e-12 * S) else "closed-nonzero")
        else:
            shapes.add("open")
    if len(subs) > 1:
        shapes.add("multi")
    for sh in shapes:
        o.label("shape:%s" % sh)
    if no_move:
        o.label("class:no-own-move")
    drawn = [tuple(map(repr, g)) for g in case["segs"] if g[0] not in ("M", "Z")]
    if len(set(drawn)) < len(drawn):
        o.label("shape:repeated-segment")
    ops = case["ops"]
    if len(ops) == 2 and ops[0] == ops[1] and ops[0][0] in ("rev", "revsub"):
        o.label("history:double-reverse")

    def fail(out):
        if no_move and out.status == "violation":
            return o.known("KF-REVERSE-NO-MOVE", out.detail)
        return out

    try:
        bad = compare(o, p, subs, S, "before any operation")
        if bad is not None:
            if no_move:
                return o.excluded("fragment that the constructors cannot represent")
            raise core.HarnessError("model disagrees with the freshly built path: %s" % bad.detail)
        measured = bool(case.get("measure")) and not no_move
        cur = p
        if case.get("fluent"):
            o.label("history:fluent")
        if measured:
            o.label("history:measured")
        for n, op in enumerate(ops):
            o.label("op:%s" % op[0])
            where = "after %s" % (ops[: n + 1],)
            if measured:
                c17.observe(p, S)  # length, points along the path, bounding box: whatever this caches must not go stale
            if op[0] == "rev":
                ret = cur.reverse()
                if case.get("fluent") and ret is not None:
                    # fluent use: the history continues on what reverse() returned (p.reverse().reverse() ...); the path
                    # itself and the returned object must both keep tracing the model
                    cur = ret
                subs = [model_reverse_sub(s) for s in reversed(subs)]
            elif op[0] == "revsub":
                lsubs = list(cur.as_subpaths())
                if len(lsubs) != len(subs):
                    return fail(o.violation("subpath-count", "%s: as_subpaths gives %d, model %d" % (where, len(lsubs), len(subs))))
                i = op[1] % len(subs)
                lsubs[i].reverse()
                subs[i] = model_reverse_sub(subs[i])
            elif op[0] == "submul" and any(s["move"] is not None and not s["drawn"] and s["close"] is None for s in subs):
                o.label("submul:skipped-lone-move")
                continue
            elif op[0] == "submul":
                # the transform applied in place through a subpath view: only that subpath of the backing path moves
                lsubs = list(cur.as_subpaths())
                if len(lsubs) != len(subs):
                    return fail(o.violation("subpath-count", "%s: as_subpaths gives %d, model %d" % (where, len(lsubs), len(subs))))
                i = op[1] % len(subs)
                M = op[2]["m"]
                lsubs[i] *= lib.mk_matrix(M)
                S = max(S, S * gen.mat_norm(M) * 2 + abs(M[4]) + abs(M[5]))
                s0 = subs[i]
                subs[i] = {"own_move": s0["own_move"], "move": s0["move"].mapped(M) if s0["move"] else None, "drawn": [m.mapped(M) for m in s0["drawn"]],
                           "close": s0["close"].mapped(M) if s0["close"] else None}
            else:
                M = op[1]["m"]
                cur *= lib.mk_matrix(M)
                cur.reify()
                S = max(S, S * gen.mat_norm(M) * 2 + abs(M[4]) + abs(M[5]))
                subs = [
                    {"own_move": s["own_move"], "move": s["move"].mapped(M) if s["move"] else None, "drawn": [m.mapped(M) for m in s["drawn"]],
                     "close": s["close"].mapped(M) if s["close"] else None}
                    for s in subs
                ]
            if len(p) == 0 and model_flat(subs):
                return fail(o.violation("path-emptied", "%s: the path has no segments left" % where))
            bad = compare(o, p, subs, S, where)
            if bad is not None:
                return fail(bad)
            if cur is not p:
                o.label("fluent:returned-another-object")
                bad = compare(o, cur, subs, S, where + " (the object reverse() returned)")
                if bad is not None:
                    return fail(bad)
            if measured:
                have, fresh = c17.observe(p, S), c17.observe(se.Path(p), S)
                if not c17.same_observations(have, fresh, S):
                    return o.violation("measured-history:%s" % op[0], "%s, the path having been measured before each step: [point(0.3), length, point(0.8), bbox] = %r, on a fresh copy of the same path %r" % (where, have, fresh))
        if o.labels.count("history:double-reverse"):
            if not (p == original):
                return fail(o.violation("involution", "reversing twice gives %r, original %r" % (p.d(), original.d())))
    except core.HarnessError:
        raise
    except Exception as e:
        if no_move and core.library_frame(e.__traceback__) is not None:
            return o.known("KF-REVERSE-NO-MOVE", "%s: %s" % (type(e).__name__, e))
        raise
    curved = any(s[0] in "QCA" for s in case["segs"])
    o.nontrivial = curved and ("multi" in shapes or "closed-nonzero" in shapes) and any(op[0] in ("rev", "revsub") for op in ops)
    return o.ok()
