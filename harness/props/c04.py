"""
C04 - transform strings and Matrix algebra follow SVG/CSS transform semantics.

Cases:
  {"funcs": [[name, [args as text]], ...], "text": rendered string, "ppi": n, "p": [x, y]}       (strings)
  {"A": m6, "B": m6, "p": [x,y], "ops": [[op, args...], ...]}                                     (algebra)
Oracle: the harness' own 6-tuple affine algebra (gen.mat_mul / mat_apply / mat_inv) and elementary matrices
        written from SVG 1.1 7.6 / CSS Transforms 1.
"""
import copy as _copy
import math
from fractions import Fraction

from .. import core, gen, lib

PROPERTY = "C04"
RULE = (
    "cases are (strings) transform lists of 1..8 functions drawn from matrix, translate[X|Y], scale[X|Y], rotate "
    "(with and without centre), skew, skewX, skewY with optional arguments present or omitted, generated number "
    "spellings, angle units deg/grad/rad/turn/none, length units on translate, generated letter case and "
    "separators; (algebra) pairs of invertible 6-tuples with a point and a sequence of pre_/post_ operations. "
    "Non-trivial = a list with >= 2 functions that do not commute (decided by the reference), or a function with an "
    "omitted optional argument, or a non-degree angle unit or a length unit / for algebra: a non-similarity matrix "
    "pair; distinct by text / tuples."
)
ASSUMPTIONS = [
    'both operands of a product may be the same object (m * m, m *= m, m @= m, post_cat(m), pre_cat(m))',
    "elementary matrices from SVG 1.1 7.6 and CSS Transforms 1 (skew(a) = skew(a, 0)); right-most function applied first",
    "mm/cm translate arguments are compared with the exact CSS ratio; a result that instead matches the library's "
    "documented 6-digit inch constant (0.393701) is known finding KF-INCH-CONSTANT (C12)",
    "skew angles are generated within +-80 degrees (tan is unbounded at 90)",
]
TOLERANCES = {"matrix-entries": "1e-9 * product of factor norms", "inverse": "1e-9 * cond(M)", "point": "1e-9 * scale"}
MANDATORY_LABELS = {
    "quick": ["fn:matrix/6", "fn:translate/1", "fn:translate/2", "fn:scale/1", "fn:scale/2", "fn:rotate/1", "fn:rotate/3", "fn:skew/1", "fn:skew/2", "fn:skewx/1", "fn:skewy/1", "fn:translatex/1", "fn:translatey/1", "fn:scalex/1", "fn:scaley/1", "unit:grad", "unit:rad", "unit:turn", "unit:deg", "unit-case:mixed", "percent:wh", "percent:rel", "percent-route:ctor", "percent-route:render"],
}
MANDATORY_LABELS["thorough"] = MANDATORY_LABELS["quick"] + ["unit:in", "unit:pt", "unit:pc", "unit:mm", "unit:cm"]

ANGLE_UNITS = ["", "deg", "grad", "rad", "turn", ""]
LENGTH_UNITS = ["", "", "px", "pt", "pc", "", "px", "pt", "", "in", "mm", "cm", "", "", "pc", "px"]
NAMES = ["matrix", "translate", "translate", "translateX", "translateY", "scale", "scale", "scaleX", "scaleY", "rotate", "rotate", "skew", "skewX", "skewY"]

PX_PER = {"": Fraction(1), "px": Fraction(1), "pt": Fraction(4, 3), "pc": Fraction(16)}


def unit_case(d, unit):
    """CSS units are case-insensitive: spell them lower, UPPER, Title or swapped"""
    if not unit or not d.chance(3, 8):
        return unit
    k = d.below(3)
    return unit.upper() if k == 0 else unit.capitalize() if k == 1 else "".join(c.upper() if i % 2 else c for i, c in enumerate(unit))


def angle_text(d, deg, unit):
    """spell an angle given in degrees in the requested unit (value re-read from the text by the oracle)"""
    if unit in ("", "deg"):
        v = deg
    elif unit == "grad":
        v = deg * 400.0 / 360.0
    elif unit == "rad":
        v = math.radians(deg)
    else:
        v = deg / 360.0
    return "%s%s" % (repr(gen.r6(v)) if not float(gen.r6(v)).is_integer() else str(int(gen.r6(v))), unit_case(d, unit))


def num_text(d, v):
    v = gen.r6(v)
    if float(v).is_integer() and abs(v) < 1e15:
        s = str(int(v))
        if d.chance(1, 8):
            s = s + ".0"
        return s
    s = repr(v)
    if s.startswith("0.") and d.chance(1, 4):
        s = s[1:]
    elif s.startswith("-0.") and d.chance(1, 4):
        s = "-" + s[2:]
    return s


def small(d):
    return d.choice([0.0, 1.0, 2.0, -1.0, 0.5, 10.0, -3.5, 100.0, 0.25, 7.0]) if d.bool() else gen.r6(d.uniform(-200.0, 200.0))


def decode_string(d):
    n = d.int(1, 8)
    funcs = []
    for _ in range(n):
        name = d.choice(NAMES)
        low = name.lower()
        if low == "matrix":
            m = gen.matrix(d)["m"]
            args = [num_text(d, v) for v in m]
        elif low == "translate":
            u = d.choice(LENGTH_UNITS)
            args = [num_text(d, small(d)) + unit_case(d, u)]
            if d.bool():
                fam = [x for x in (("in", "mm", "cm") if u in ("in", "mm", "cm") else ("", "px", "pt", "pc")) if x in LENGTH_UNITS and x != u]
                k = d.below(4)
                u2 = u if k <= 1 else (d.choice(fam) if (k == 2 and fam) else d.choice(LENGTH_UNITS))  # same unit / same family / any
                args.append(num_text(d, small(d)) + unit_case(d, u2))
        elif low in ("translatex", "translatey"):
            args = [num_text(d, small(d)) + unit_case(d, d.choice(LENGTH_UNITS))]
        elif low == "scale":
            s = d.choice([1.0, 2.0, 0.5, -1.0, 3.0, -2.0, 0.1]) if d.bool() else gen.loguniform(d, -2.0, 2.0)
            args = [num_text(d, s)]
            if d.bool():
                args.append(num_text(d, d.choice([1.0, 2.0, 0.5, -1.0, 3.0]) if d.bool() else gen.loguniform(d, -2.0, 2.0)))
        elif low in ("scalex", "scaley"):
            args = [num_text(d, d.choice([2.0, 0.5, -1.0, 3.0]) if d.bool() else gen.loguniform(d, -2.0, 2.0))]
        elif low == "rotate":
            if d.bool():
                args = [angle_text(d, gen.angle_deg(d), d.choice(ANGLE_UNITS))]
            else:
                args = [angle_text(d, gen.angle_deg(d), d.choice(["", "", "deg", "rad"])), num_text(d, small(d)), num_text(d, small(d))]
        elif low == "skew":
            args = [angle_text(d, gen.r6(d.uniform(-80.0, 80.0)), d.choice(ANGLE_UNITS))]
            if d.bool():
                args.append(angle_text(d, gen.r6(d.uniform(-80.0, 80.0)), d.choice(ANGLE_UNITS)))
        else:
            args = [angle_text(d, d.choice([30.0, 45.0, -45.0, 10.0, 60.0, 0.0]) if d.bool() else gen.r6(d.uniform(-80.0, 80.0)), d.choice(ANGLE_UNITS))]
        funcs.append([name, args])
    # render
    parts = []
    for name, args in funcs:
        style = d.below(4)
        nm = name if style == 0 else name.lower() if style == 1 else name.upper() if style == 2 else name.capitalize()
        seps = [d.choice([",", " ", ", ", " , ", "  "]) for _ in args[1:]]
        body = args[0]
        for s, a in zip(seps, args[1:]):
            if a[0] == "-" and d.chance(1, 6) and not body[-1].isalpha():
                s = ""
            body += s + a
        parts.append("%s%s(%s%s%s)" % (nm, d.choice(["", "", " "]), d.choice(["", "", " "]), body, d.choice(["", "", " "])))
    text = parts[0]
    for p in parts[1:]:
        text += d.choice([" ", " ", ",", ", ", "\n", ""]) + p
    return {"funcs": funcs, "text": text, "ppi": d.choice([96, 96, 72, 100, 254, 300]), "p": gen.point(d, gen.small_coord)}


OPS = ["translate", "translate_x", "translate_y", "scale", "scale_c", "scale_x", "scale_y", "rotate", "rotate_c", "skew", "skew_c", "skew_x", "skew_y", "cat"]


def decode_algebra(d):
    A = gen.matrix(d)["m"]
    B = gen.matrix(d)["m"]
    if d.chance(1, 6):
        # the same well-conditioned matrix at another size (nanometres to metres, a far zoom): the linear part times
        # 1e-9 .. 1e9 - its determinant is far from 1 although nothing about it is close to singular
        k = d.choice([1e-9, 3e-8, 1e-7, 2.5e-6, 1e6, 4e7, 1e9])
        A = [A[0] * k, A[1] * k, A[2] * k, A[3] * k, A[4], A[5]]
        if d.bool():
            B = [B[0] / k, B[1] / k, B[2] / k, B[3] / k, B[4], B[5]]
    ops = []
    for _ in range(d.int(1, 5)):
        side = d.choice(["pre", "post"])
        op = d.choice(OPS)
        if op in ("translate",):
            args = [small(d), small(d)]
        elif op in ("translate_x", "translate_y"):
            args = [small(d)]
        elif op == "scale":
            args = [gen._scale(d), gen._scale(d) * d.choice([1.0, -1.0, 1.0])]
        elif op == "scale_c":
            args = [gen._scale(d), gen._scale(d), small(d), small(d)]
        elif op in ("scale_x", "scale_y"):
            args = [gen._scale(d) * d.choice([1.0, -1.0])]
        elif op == "rotate":
            args = [gen.angle_deg(d)]
        elif op == "rotate_c":
            args = [gen.angle_deg(d), small(d), small(d)]
        elif op == "skew":
            args = [gen.r6(d.uniform(-80, 80)), gen.r6(d.uniform(-80, 80))]
        elif op == "skew_c":
            args = [gen.r6(d.uniform(-80, 80)), gen.r6(d.uniform(-80, 80)), small(d), small(d)]
        elif op in ("skew_x", "skew_y"):
            args = [gen.r6(d.uniform(-80, 80))]
        else:
            args = gen.matrix(d)["m"]
        ops.append([side, op, args])
    return {"A": A, "B": B, "p": gen.point(d, gen.small_coord), "ops": ops}


def decode_percent(d):
    """a percentage translation between optional linear functions, rendered against width/height or relative_length"""
    def linear():
        k = d.choice(["scale", "scale", "rotate", "skewX", "matrix"])
        if k == "scale":
            return ["scale", [num_text(d, d.choice([2.0, 0.5, -1.0, 3.0])), num_text(d, d.choice([1.0, 2.0, 0.25, -2.0]))]]
        if k == "rotate":
            return ["rotate", [num_text(d, d.choice([30.0, 90.0, -45.0, 10.0]))]]
        if k == "skewX":
            return ["skewX", [num_text(d, d.choice([20.0, -30.0, 45.0]))]]
        m = gen.matrix(d, translate=False)["m"]
        return ["matrix", [num_text(d, v) for v in m[:4]] + ["0", "0"]]

    pure = d.chance(3, 4)  # mostly percentages only: a percentage next to a plain offset is the known finding

    def arg():
        v = d.choice([10.0, 20.0, 50.0, -25.0, 12.5, 100.0, 5.0]) if d.bool() else gen.r6(d.uniform(-150.0, 150.0))
        return num_text(d, v) + ("%" if pure else d.choice(["%", "%", "%", "", "px"]))

    funcs = [linear() for _ in range(d.int(0, 2))]
    name = d.choice(["translate", "translate", "translate", "translateX", "translateY"])
    funcs.append([name, [arg(), arg()] if (name == "translate" and d.chance(3, 4)) else [arg()]])
    if d.chance(1, 3):
        funcs.append([d.choice(["translate", "translateX", "translateY"]), [arg()]])
    funcs += [linear() for _ in range(d.int(0, 1))]
    text = " ".join("%s(%s)" % (n_, d.choice([", ", " ", ","]).join(a_)) for n_, a_ in funcs)
    if d.bool():
        mode = {"mode": "wh", "w": d.choice([200.0, 50.0, 120.0, 640.0]), "h": d.choice([100.0, 300.0, 120.0, 480.0])}
    else:
        mode = {"mode": "rel", "r": d.choice([200.0, 50.0, 1.0, 333.0])}
    return {"funcs": funcs, "text": text, "render": mode, "route": d.choice(["ctor", "render"]), "p": gen.point(d, gen.small_coord)}


def check_percent(case):
    se = lib.L()
    o = core.Obs()
    funcs, text, mode = case["funcs"], case["text"], case["render"]
    W = mode["w"] if mode["mode"] == "wh" else mode["r"]
    H = mode["h"] if mode["mode"] == "wh" else mode["r"]
    o.label("percent:%s" % mode["mode"], "percent-route:%s" % case["route"])

    def length(tok, ref):
        t = tok.lower()
        if t.endswith("%"):
            return float(t[:-1]) * ref / 100.0
        return float(t[:-2]) if t.endswith("px") else float(t)

    total = gen.IDENTITY
    norm = 1.0
    mixed = False  # a percentage translation right of a function that mixes the axes
    left_mixes = False
    for name, args in funcs:
        low = name.lower()
        if low == "translate":
            e = (1.0, 0.0, 0.0, 1.0, length(args[0], W), length(args[1], H) if len(args) > 1 else 0.0)
        elif low == "translatex":
            e = (1.0, 0.0, 0.0, 1.0, length(args[0], W), 0.0)
        elif low == "translatey":
            e = (1.0, 0.0, 0.0, 1.0, 0.0, length(args[0], H))
        else:
            e = elementary(name, args, 96)
        if low.startswith("translate") and any(a.endswith("%") for a in args) and left_mixes:
            mixed = True
        if abs(e[1]) > 1e-12 or abs(e[2]) > 1e-12:
            left_mixes = True
        total = gen.mat_mul(e, total)
        norm *= max(1.0, gen.mat_norm(e) + abs(e[4]) + abs(e[5]))
    kw = {"width": W, "height": H} if mode["mode"] == "wh" else {"relative_length": mode["r"]}
    try:
        if case["route"] == "ctor":
            got_m = se.Matrix(text, **kw)
        else:
            got_m = se.Matrix(text)
            got_m.render(**kw)
        got = mtuple(got_m)
    except Exception as e:
        if core.library_frame(e.__traceback__) is None:
            raise
        toks = [a for n_, a_ in funcs if n_.lower().startswith("translate") for a in a_]
        plain = [a for a in toks if not a.endswith("%") and float(a[:-2] if a.lower().endswith("px") else a) != 0.0]
        if isinstance(e, ValueError) and core.library_frame(e.__traceback__) in ("__iadd__", "value") and any(a.endswith("%") for a in toks) and plain:
            return o.known("KF-TRANSFORM-PERCENT-SYMBOLIC", "Matrix(%r) rendered with %r raised ValueError: a percentage and a plain translation component were combined in one symbolic Length" % (text, kw))
        return o.violation("percent:raises:%s" % type(e).__name__, "Matrix(%r) rendered with %r raised %s: %s" % (text, kw, type(e).__name__, str(e)[:80]))
    if not mclose(got, total, 1e-9 * norm):
        if mixed and W != H:
            return o.known("KF-TRANSFORM-PERCENT-SYMBOLIC", "Matrix(%r) rendered with %r = %r, the product of its functions is %r: a percentage offset right of a rotation/skew mixes x- and y-percentages in one symbolic Length, which is then resolved against one axis" % (text, kw, got, total))
        return o.violation("percent:%s" % mode["mode"], "Matrix(%r) rendered with %r (%s) = %r, the product of its functions is %r" % (text, kw, case["route"], got, total))
    o.nontrivial = any(a.endswith("%") for n_, a_ in funcs for a in a_)
    return o.ok()


def parts(tier):
    n = 15000 if tier == "quick" else 40000
    return [
        core.Part("strings", "sampled", lambda: gen.cases(decode_string, 384), budget=n),
        core.Part("algebra", "sampled", lambda: gen.cases(decode_algebra, 256), budget=n, check=check_algebra),
        core.Part("percent", "sampled", lambda: gen.cases(decode_percent, 256), budget=n // 5, check=check_percent),
    ]


# ---- reference -------------------------------------------------------------------------------------------


def unit_of(tok):
    """lower-cased unit suffix of a number token ('1E3' has none, '1e3Em' has 'em')"""
    i = len(tok)
    while i > 0 and tok[i - 1].isalpha():
        i -= 1
    suffix = tok[i:]
    # a trailing exponent marker belongs to the number only if digits follow it - they do not, here
    return suffix.lower()


def parse_angle(tok):
    t = tok.lower()
    if t.endswith("deg"):
        return math.radians(float(t[:-3]))
    if t.endswith("grad"):
        return float(t[:-4]) * math.pi / 200.0
    if t.endswith("rad"):
        return float(t[:-3])
    if t.endswith("turn"):
        return float(t[:-4]) * 2.0 * math.pi
    return math.radians(float(t))


def parse_len(tok, ppi, inch_table="exact"):
    """-> user units (float)"""
    t = tok.lower()
    for u in ("px", "pt", "pc", "in", "mm", "cm"):
        if t.endswith(u):
            v = float(t[: -len(u)])
            break
    else:
        u = ""
        v = float(t)
    if u in PX_PER:
        return v * float(PX_PER[u])
    if u == "in":
        return v * ppi
    if inch_table == "exact":
        return v * ppi / (25.4 if u == "mm" else 2.54)
    return v * ppi * (0.0393701 if u == "mm" else 0.393701)


def sandwich(m, cx, cy):
    """m about the centre (cx, cy): translate(-c) then m then translate(c)"""
    return gen.mat_mul(gen.mat_mul((1, 0, 0, 1, -cx, -cy), m), (1, 0, 0, 1, cx, cy))


def elementary(name, args, ppi, inch_table="exact"):
    low = name.lower()
    if low == "matrix":
        return tuple(float(a) for a in args)
    if low == "translate":
        tx = parse_len(args[0], ppi, inch_table)
        ty = parse_len(args[1], ppi, inch_table) if len(args) > 1 else 0.0
        return (1.0, 0.0, 0.0, 1.0, tx, ty)
    if low == "translatex":
        return (1.0, 0.0, 0.0, 1.0, parse_len(args[0], ppi, inch_table), 0.0)
    if low == "translatey":
        return (1.0, 0.0, 0.0, 1.0, 0.0, parse_len(args[0], ppi, inch_table))
    if low == "scale":
        sx = float(args[0])
        sy = float(args[1]) if len(args) > 1 else sx
        return (sx, 0.0, 0.0, sy, 0.0, 0.0)
    if low == "scalex":
        return (float(args[0]), 0.0, 0.0, 1.0, 0.0, 0.0)
    if low == "scaley":
        return (1.0, 0.0, 0.0, float(args[0]), 0.0, 0.0)
    if low == "rotate":
        a = parse_angle(args[0])
        r = (math.cos(a), math.sin(a), -math.sin(a), math.cos(a), 0.0, 0.0)
        if len(args) == 3:
            return sandwich(r, float(args[1]), float(args[2]))
        return r
    if low == "skew":
        a = parse_angle(args[0])
        b = parse_angle(args[1]) if len(args) > 1 else 0.0
        return (1.0, math.tan(b), math.tan(a), 1.0, 0.0, 0.0)
    if low == "skewx":
        return (1.0, 0.0, math.tan(parse_angle(args[0])), 1.0, 0.0, 0.0)
    if low == "skewy":
        return (1.0, math.tan(parse_angle(args[0])), 0.0, 1.0, 0.0, 0.0)
    raise core.HarnessError("unknown transform function %r" % name)


def denote(funcs, ppi, inch_table="exact"):
    total = gen.IDENTITY
    norm = 1.0
    for name, args in funcs:
        e = elementary(name, args, ppi, inch_table)
        total = gen.mat_mul(e, total)  # e is applied to the point before everything to its left
        norm *= max(1.0, gen.mat_norm(e) + abs(e[4]) + abs(e[5]))
    return total, norm


def mtuple(m):
    return (float(m.a), float(m.b), float(m.c), float(m.d), float(m.e), float(m.f))


def mclose(a, b, tol):
    return all(abs(x - y) <= tol for x, y in zip(a, b))


def check(case):
    se = lib.L()
    o = core.Obs()
    funcs, text, ppi = case["funcs"], case["text"], case["ppi"]
    units = set()
    for name, args in funcs:
        o.label("fn:%s/%d" % (name.lower(), len(args)))
        for a in args:
            u = unit_of(a)
            if u:
                units.add(u)
                o.label("unit:%s" % u)
                if a[-len(u):] != u:
                    o.label("unit-case:mixed")
    want, norm = denote(funcs, ppi)
    fams = set()
    for name, args in funcs:
        if name.lower().startswith("translate"):
            for a in args:
                u = unit_of(a)
                if float(a[: len(a) - len(u)]) != 0.0:
                    fams.add("inch" if u in ("in", "mm", "cm") else "px")
    if "inch" in fams:
        o.label("class:inch-family-translate")
    try:
        got_m = se.Matrix(text, ppi=ppi)
    except ValueError as e:
        if "inch" in fams and core.library_frame(e.__traceback__) == "__iadd__":
            return o.known("KF-TRANSFORM-MIXED-UNITS", "Matrix(%r, ppi=%s) raised ValueError" % (text, ppi))
        raise
    got = mtuple(got_m)
    tol = 1e-9 * norm
    if not mclose(got, want, tol):
        if units & {"mm", "cm"}:
            alt, _ = denote(funcs, ppi, "library-constant")
            if mclose(got, alt, tol):
                return o.known("KF-INCH-CONSTANT", "%r at ppi %s: %r (exact: %r)" % (text, ppi, got, want))
        # which function is responsible?  re-check each function alone
        for name, args in funcs:
            single = "%s(%s)" % (name, ",".join(args))
            w1, n1 = denote([[name, args]], ppi)
            g1 = mtuple(se.Matrix(single, ppi=ppi))
            if not mclose(g1, w1, 1e-9 * n1):
                alt1, _ = denote([[name, args]], ppi, "library-constant")
                if mclose(g1, alt1, 1e-9 * n1) and not mclose(alt1, w1, 1e-9 * n1):
                    continue
                return o.violation("function:%s/%d" % (name.lower(), len(args)), "Matrix(%r) = %r, specification gives %r" % (single, g1, w1))
        return o.violation("composition-order", "Matrix(%r) = %r, right-most-first product is %r" % (text, got, want))
    # point application agrees
    p = case["p"]
    q = se.Point(p[0], p[1]) * got_m
    wq = gen.mat_apply(want, p)
    S = max(1.0, abs(p[0]), abs(p[1])) * norm
    if not core.pclose((q.x, q.y), wq, 1e-9 * S):
        return o.violation("point-application", "Point%r * Matrix(%r) = %r, expected %r" % (tuple(p), text, (q.x, q.y), wq))
    # non-triviality
    nontriv = bool(units - {"deg"}) or any(
        (name.lower() in ("translate", "scale", "skew") and len(args) == 1) or (name.lower() == "rotate" and len(args) == 1 and False) for name, args in funcs
    )
    if not nontriv and len(funcs) >= 2:
        for (n1, a1), (n2, a2) in zip(funcs, funcs[1:]):
            e1, e2 = elementary(n1, a1, ppi), elementary(n2, a2, ppi)
            ab, ba = gen.mat_mul(e1, e2), gen.mat_mul(e2, e1)
            if not mclose(ab, ba, 1e-9 * max(1.0, gen.mat_norm(ab) + abs(ab[4]) + abs(ab[5]))):
                nontriv = True
                break
    o.nontrivial = nontriv
    return o.ok()


def op_matrix(op, args):
    r = math.radians
    if op == "translate":
        return (1, 0, 0, 1, args[0], args[1])
    if op == "translate_x":
        return (1, 0, 0, 1, args[0], 0.0)
    if op == "translate_y":
        return (1, 0, 0, 1, 0.0, args[0])
    if op == "scale":
        return (args[0], 0, 0, args[1], 0, 0)
    if op == "scale_c":
        return sandwich((args[0], 0, 0, args[1], 0, 0), args[2], args[3])
    if op == "scale_x":
        return (args[0], 0, 0, 1, 0, 0)
    if op == "scale_y":
        return (1, 0, 0, args[0], 0, 0)
    if op == "rotate":
        a = r(args[0])
        return (math.cos(a), math.sin(a), -math.sin(a), math.cos(a), 0, 0)
    if op == "rotate_c":
        a = r(args[0])
        return sandwich((math.cos(a), math.sin(a), -math.sin(a), math.cos(a), 0, 0), args[1], args[2])
    if op == "skew":
        return (1, math.tan(r(args[1])), math.tan(r(args[0])), 1, 0, 0)
    if op == "skew_c":
        return sandwich((1, math.tan(r(args[1])), math.tan(r(args[0])), 1, 0, 0), args[2], args[3])
    if op == "skew_x":
        return (1, 0, math.tan(r(args[0])), 1, 0, 0)
    if op == "skew_y":
        return (1, math.tan(r(args[0])), 0, 1, 0, 0)
    if op == "cat":
        return tuple(args)
    raise core.HarnessError(op)


def apply_op(m, side, op, args):
    r = math.radians
    f = lambda name: getattr(m, "%s_%s" % (side, name))
    if op == "translate":
        f("translate")(args[0], args[1])
    elif op == "translate_x":
        f("translate_x")(args[0])
    elif op == "translate_y":
        f("translate_y")(args[0])
    elif op == "scale":
        f("scale")(args[0], args[1])
    elif op == "scale_c":
        f("scale")(args[0], args[1], args[2], args[3])
    elif op == "scale_x":
        f("scale_x")(args[0])
    elif op == "scale_y":
        f("scale_y")(args[0])
    elif op == "rotate":
        f("rotate")(r(args[0]))
    elif op == "rotate_c":
        f("rotate")(r(args[0]), args[1], args[2])
    elif op == "skew":
        f("skew")(r(args[0]), r(args[1]))
    elif op == "skew_c":
        f("skew")(r(args[0]), r(args[1]), args[2], args[3])
    elif op == "skew_x":
        f("skew_x")(r(args[0]))
    elif op == "skew_y":
        f("skew_y")(r(args[0]))
    elif op == "cat":
        f("cat")(*args)


def cond(m):
    a, b, c, d = m[0], m[1], m[2], m[3]
    fro = a * a + b * b + c * c + d * d
    det = abs(a * d - b * c)
    return max(1.0, fro / max(det, 1e-300))


def _inplace(a, b, how):
    m = _copy.copy(a)
    if how == "mul":
        m *= b
    else:
        m @= b
    return m


def check_algebra(case):
    se = lib.L()
    o = core.Obs()
    A, B, p = tuple(case["A"]), tuple(case["B"]), case["p"]
    mA, mB = lib.mk_matrix(A), lib.mk_matrix(B)
    sA, sB = mtuple(mA), mtuple(mB)
    P = se.Point(p[0], p[1])
    nA = gen.mat_norm(A) + abs(A[4]) + abs(A[5]) + 1.0
    nB = gen.mat_norm(B) + abs(B[4]) + abs(B[5]) + 1.0
    S = max(1.0, abs(p[0]), abs(p[1])) * nA * nB
    # composition agrees with point application and with the reference product
    AB = mA * mB
    if mtuple(mA) != sA or mtuple(mB) != sB:
        return o.violation("operand-modified:*", "A * B changed an operand")
    if not mclose(mtuple(AB), gen.mat_mul(A, B), 1e-9 * nA * nB):
        return o.violation("matrix-product", "A*B = %r, expected %r" % (mtuple(AB), gen.mat_mul(A, B)))
    lhs = P * AB
    rhs = (P * mA) * mB
    if not core.pclose((lhs.x, lhs.y), (rhs.x, rhs.y), 1e-9 * S):
        return o.violation("associativity", "p*(A*B) = %r but (p*A)*B = %r" % ((lhs.x, lhs.y), (rhs.x, rhs.y)))
    if not core.pclose((lhs.x, lhs.y), gen.mat_apply(B, gen.mat_apply(A, p)), 1e-9 * S):
        return o.violation("point-application", "p*(A*B) = %r, B(A(p)) = %r" % ((lhs.x, lhs.y), gen.mat_apply(B, gen.mat_apply(A, p))))
    # inverse
    for name, M, m in (("A", A, mA), ("B", B, mB)):
        inv = ~m
        if mtuple(m) != (sA if name == "A" else sB):
            return o.violation("operand-modified:~", "~M changed its operand")
        k = cond(M) * (1.0 + (abs(M[4]) + abs(M[5])) / max(gen.mat_norm(M), 1e-300))
        for prod, side in ((m * inv, "M*~M"), (inv * m, "~M*M")):
            if not mclose(mtuple(prod), gen.IDENTITY, 1e-9 * k):
                return o.violation("inverse", "%s = %r for M = %r" % (side, mtuple(prod), M))
    # identity is neutral
    I = se.Matrix()
    if not mclose(mtuple(mA * I), A, 1e-12 * nA) or not mclose(mtuple(I * mA), A, 1e-12 * nA):
        return o.violation("identity-neutral", "A*I or I*A differs from A = %r" % (A,))
    # the other spellings of the product: @, the in-place forms, a string operand
    for what, got in (("A @ B", mA @ mB), ("A *= B", _inplace(mA, mB, "mul")), ("A @= B", _inplace(mA, mB, "matmul")),
                      ("A * 'matrix(..)'", mA * ("matrix(%r,%r,%r,%r,%r,%r)" % B))):
        if not mclose(mtuple(got), gen.mat_mul(A, B), 1e-9 * nA * nB):
            return o.violation("matrix-product:%s" % what.split()[1], "%s = %r, expected %r" % (what, mtuple(got), gen.mat_mul(A, B)))
    if mtuple(mA) != sA or mtuple(mB) != sB:
        return o.violation("operand-modified:@", "a product form changed an operand")
    # a matrix multiplied by itself: both operands are the one object
    AA = gen.mat_mul(A, A)
    for what, how in (("A * A", lambda m: m * m), ("A @ A", lambda m: m @ m), ("A *= A", lambda m: m.__imul__(m)), ("A @= A", lambda m: m.__imatmul__(m)),
                      ("A.post_cat(A)", lambda m: (m.post_cat(m), m)[1]), ("A.pre_cat(A)", lambda m: (m.pre_cat(m), m)[1])):
        m = lib.mk_matrix(A)
        got = how(m)
        if not mclose(mtuple(got), AA, 1e-9 * nA * nA):
            return o.violation("self-product:%s" % what.split()[1 if " " in what else 0], "%s = %r for A = %r, expected %r" % (what, mtuple(got), A, AA))
    o.label("self-product")
    # elementary constructors = the elementary matrices the pre_/post_ operations multiply by
    for op, args in [(o_[1], o_[2]) for o_ in case["ops"]]:
        ctor = {"translate": lambda a: se.Matrix.translate(a[0], a[1]), "translate_x": lambda a: se.Matrix.translate_x(a[0]), "translate_y": lambda a: se.Matrix.translate_y(a[0]),
                "scale": lambda a: se.Matrix.scale(a[0], a[1]), "scale_x": lambda a: se.Matrix.scale_x(a[0]), "scale_y": lambda a: se.Matrix.scale_y(a[0]),
                "rotate": lambda a: se.Matrix.rotate(math.radians(a[0])), "skew": lambda a: se.Matrix.skew(math.radians(a[0]), math.radians(a[1])),
                "skew_x": lambda a: se.Matrix.skew_x(math.radians(a[0])), "skew_y": lambda a: se.Matrix.skew_y(math.radians(a[0]))}.get(op)
        if ctor is None:
            continue
        o.label("ctor:%s" % op)
        E = tuple(float(v) for v in op_matrix(op, args))
        got = mtuple(ctor(args))
        if not mclose(got, E, 1e-9 * (gen.mat_norm(E) + abs(E[4]) + abs(E[5]) + 1.0)):
            return o.violation("constructor:%s" % op, "Matrix.%s%r = %r, the elementary matrix is %r" % (op, tuple(args), got, E))
    if mtuple(se.Matrix.identity()) != tuple(gen.IDENTITY) or mtuple(se.Matrix.scale(args_s := 3.0)) != (3.0, 0.0, 0.0, 3.0, 0.0, 0.0):
        return o.violation("constructor:identity-or-uniform-scale", "Matrix.identity() = %r, Matrix.scale(3) = %r" % (mtuple(se.Matrix.identity()), mtuple(se.Matrix.scale(3.0))))
    # read-only queries: right answers, and the matrix is the same afterwards
    q = lib.mk_matrix(A)
    before = mtuple(q)
    Ap = gen.mat_apply(A, p)
    answers = [
        ("point_in_matrix_space", lambda: tuple(q.point_in_matrix_space(se.Point(p[0], p[1]))), Ap, 1e-9 * S),
        ("point_in_inverse_space", lambda: tuple(q.point_in_inverse_space(se.Point(Ap[0], Ap[1]))), tuple(p), 1e-9 * S * cond(A) * (1.0 + (abs(A[4]) + abs(A[5])) / max(gen.mat_norm(A), 1e-300))),
        ("transform_point", lambda: tuple(q.transform_point([p[0], p[1]])), Ap, 1e-9 * S),
        ("transform_vector", lambda: tuple(q.transform_vector([p[0], p[1]])), (Ap[0] - A[4], Ap[1] - A[5]), 1e-9 * S),
        ("vector", lambda: mtuple(q.vector()), (A[0], A[1], A[2], A[3], 0.0, 0.0), 1e-12 * nA),
        ("determinant", lambda: (q.determinant,), (gen.mat_det(A),), 1e-9 * nA * nA),
        ("value_trans", lambda: (q.value_trans_x(), q.value_trans_y()), (A[4], A[5]), 1e-12 * nA),
    ]
    for name, f, want_v, tol_v in answers:
        got_v = f()
        if len(got_v) != len(want_v) or any(abs(g_ - w_) > tol_v for g_, w_ in zip(got_v, want_v)):
            return o.violation("query:%s" % name, "Matrix%r.%s: %r, expected %r" % (A, name, got_v, want_v))
        if mtuple(q) != before:
            return o.violation("query-modifies:%s" % name, "Matrix%r after .%s: %r" % (A, name, mtuple(q)))
    for name, f in (("is_identity", lambda: q.is_identity()), ("rotation", lambda: q.rotation), ("str", lambda: str(q)), ("repr", lambda: repr(q)), ("eq", lambda: q == mB), ("getitem", lambda: [q[i] for i in range(len(q))])):
        f()
        if mtuple(q) != before:
            return o.violation("query-modifies:%s" % name, "Matrix%r after %s: %r" % (A, name, mtuple(q)))
    # pre_/post_ operations
    m = lib.mk_matrix(A)
    ref = A
    norm = nA
    for side, op, args in case["ops"]:
        o.label("op:%s_%s" % (side, op))
        E = tuple(float(v) for v in op_matrix(op, args))
        apply_op(m, side, op, args)
        ref = gen.mat_mul(E, ref) if side == "pre" else gen.mat_mul(ref, E)
        norm *= gen.mat_norm(E) + abs(E[4]) + abs(E[5]) + 1.0
        if not mclose(mtuple(m), ref, 1e-9 * norm):
            return o.violation("%s_%s" % (side, op), "after %s_%s%r on %r: %r, expected %s multiplication giving %r" % (
                side, op, tuple(args), A, mtuple(m), "left" if side == "pre" else "right", ref))
    o.nontrivial = not (gen.matrix_is_similarity(A) and gen.matrix_is_similarity(B))
    return o.ok()
