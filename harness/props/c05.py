"""
C05 - endpoint-form arcs are the arcs of SVG implementation note F.6.

Case: {"arc": ["A", [x1,y1], rx, ry, rot, fa, fs, [x2,y2]], "cls": label, "route": "ctor"|"path"}
Oracle: harness/ref/arcref.py (F.6.5/F.6.6 from the specification text) + the implicit equation of its ellipse.
"""
import math

from .. import core, gen, lib
from ..ref import arcref

PROPERTY = "C05"
RULE = (
    "cases are endpoint-form arcs built by construction: start/end from the coordinate classes, radii lambda x chord/2 "
    "with lambda from {far too small .. near-fit .. exact-fit .. ample .. 1e3}, rotations incl. multiples of 90 and "
    "beyond +-360, all four flag pairs, zero / negative radii and coincident endpoints, through Arc(...) and through "
    "Path('M.. A..'). Non-trivial = non-degenerate with rotation != 0 (mod 180) or unequal radii; distinct by the case."
)
ASSUMPTIONS = [
    "reference: F.6.5 with the radicand clamped at 0 after radius scaling; math.sin/cos/acos trusted",
    "|sweep| > pi iff large-arc is asserted only when ||dtheta| - pi| > 1e-6 (the scaled-up class produces exact half turns)",
    "rotation is compared modulo a half turn and not at all for circles",
]
TOLERANCES = {"point": "(1e-9 + 1e-15 * (rmax/rmin)^2) * S (S = max |coordinate|, effective radii)", "point (lambda >= 1 - 1e-12: scaled-up / exact fit)": "1e-6 * S", "implicit equation": "1e-7 (1e-5 on the scaled-up class)"}
MANDATORY_LABELS = {
    "quick": ["cls:scaled-up", "cls:exact-fit", "cls:near-fit", "cls:ample", "cls:general", "cls:coincident", "cls:zero-radius", "cls:negative-radius", "flags:00", "flags:01", "flags:10", "flags:11", "route:ctor", "route:path", "route:complex", "route:kwargs", "route:path.arc", "route:path.arc-multi", "route:relative", "rot:multiple-of-90", "rot:beyond-360"],
}
MANDATORY_LABELS["thorough"] = MANDATORY_LABELS["quick"]


def decode(d):
    cls, arc = gen.arc_endpoint(d, allow_degenerate=False)
    k = d.below(10)
    if k == 0:
        cls, arc = gen.arc_endpoint(d, allow_degenerate=True)
        cls = d.choice(["coincident", "zero-radius", "negative-radius"])
        if cls == "coincident":
            arc[7] = list(arc[1])
        elif cls == "zero-radius":
            arc[2 + d.below(2)] = 0.0
            if d.chance(1, 4):
                arc[2] = arc[3] = 0.0
        else:
            which = d.int(1, 3)
            if which & 1:
                arc[2] = -abs(arc[2])
            if which & 2:
                arc[3] = -abs(arc[3])
    return {"arc": arc, "cls": cls, "route": d.choice(["ctor", "ctor", "path", "path", "complex", "kwargs", "path.arc", "path.arc-multi", "relative"])}


def parts(tier):
    n = 12000 if tier == "quick" else 30000
    return [core.Part("arcs", "sampled", lambda: gen.cases(decode, 96), budget=n)]


def build(case):
    se = lib.L()
    _, s, rx, ry, rot, fa, fs, e = case["arc"]
    route = case["route"]
    if route == "ctor":
        return se.Arc(se.Point(s[0], s[1]), rx, ry, rot, bool(fa), bool(fs), se.Point(e[0], e[1]))
    if route == "complex":  # the six-argument form with a complex radius
        return se.Arc(se.Point(s[0], s[1]), complex(rx, ry), rot, bool(fa), bool(fs), se.Point(e[0], e[1]))
    if route == "kwargs":
        return se.Arc(start=se.Point(s[0], s[1]), radius=complex(rx, ry), rotation=rot, arc_flag=bool(fa), sweep_flag=bool(fs), end=se.Point(e[0], e[1]))
    if route == "path.arc":  # the builder method of Path
        p = se.Path()
        p.move((s[0], s[1]))
        p.arc(rx, ry, rot, fa, fs, (e[0], e[1]))
        if len(p) != 2 or lib.kind_of(p[1]) != "A":
            raise core.HarnessError("Path().move().arc() did not give [Move, Arc]: %r" % [lib.kind_of(x) for x in p])
        return p[1]
    if route == "path.arc-multi":  # several arcs handed to one call of the builder: each starts where the previous one ended
        p = se.Path()
        p.move((s[0] + 3.0, s[1] - 2.0))
        p.arc(2.0, 1.0, 15.0, 0, 1, (s[0], s[1]), rx, ry, rot, fa, fs, (e[0], e[1]), 1.0, 1.0, 0.0, 0, 0, (e[0] + 1.0, e[1]))
        if len(p) != 4 or lib.kind_of(p[2]) != "A":
            raise core.HarnessError("Path().move().arc(three arcs) did not give [Move, Arc, Arc, Arc]: %r" % [lib.kind_of(x) for x in p])
        return p[2]
    if route == "relative":  # the relative command after a move to the start point
        text = "M%r,%r a%r,%r %r %d,%d %r,%r" % (s[0], s[1], rx, ry, rot, fa, fs, e[0] - s[0], e[1] - s[1])
        p = se.Path(text)
        if len(p) != 2 or lib.kind_of(p[1]) != "A":
            raise core.HarnessError("Path(%r) did not give [Move, Arc]" % text)
        return p[1]
    text = "M%r,%r A%r,%r %r %d,%d %r,%r" % (s[0], s[1], rx, ry, rot, fa, fs, e[0], e[1])
    p = se.Path(text)
    if len(p) != 2 or lib.kind_of(p[1]) != "A":
        raise core.HarnessError("Path(%r) did not give [Move, Arc]: %r" % (text, [lib.kind_of(x) for x in p]))
    return p[1]


TS = [0.0, 0.05, 0.125, 0.25, 1.0 / 3.0, 0.5, 0.625, 0.75, 0.9, 1.0]


def check(case):
    o = core.Obs()
    _, s, rx, ry, rot, fa, fs, e = case["arc"]
    cls = case["cls"]
    o.label("cls:%s" % cls, "flags:%d%d" % (fa, fs), "route:%s" % case["route"])
    if rot % 90.0 == 0:
        o.label("rot:multiple-of-90")
    if abs(rot) > 360.0:
        o.label("rot:beyond-360")
    arc = build(case)
    if case["route"] == "relative" and s != e:
        # the end point the relative command denotes: start + written offset, in the arithmetic the command prescribes
        e = [s[0] + float(repr(e[0] - s[0])), s[1] + float(repr(e[1] - s[1]))]
    ref = arcref.endpoint_to_centre(s[0], s[1], rx, ry, rot, fa, fs, e[0], e[1])
    chord = math.hypot(e[0] - s[0], e[1] - s[1])
    S0 = max(abs(s[0]), abs(s[1]), abs(e[0]), abs(e[1]), 1e-3)
    if ref is None:
        # degenerate: coincident endpoints draw nothing; a zero radius draws the chord
        pts = [lib.xy(arc.point(t)) for t in TS]
        if any(p is None for p in pts):
            return o.violation("degenerate:non-numeric", "point(t) of %r gave %r" % (case["arc"], pts))
        tol = 1e-9 * S0
        if s == e:
            for t, p in zip(TS, pts):
                if not core.pclose(p, s, tol):
                    return o.violation("coincident:point", "coincident endpoints: point(%r) = %r, start is %r" % (t, p, s))
            L = arc.length()
            if abs(L) > tol:
                return o.violation("coincident:length", "coincident endpoints: length() = %r" % (L,))
            bb = arc.bbox()
            if any(abs(a - b) > tol for a, b in zip(bb, (s[0], s[1], s[0], s[1]))):
                return o.violation("coincident:bbox", "coincident endpoints: bbox() = %r" % (bb,))
            return o.ok(nontrivial=False)
        prev = -1.0
        for t, p in zip(TS, pts):
            want = (s[0] + t * (e[0] - s[0]), s[1] + t * (e[1] - s[1]))
            # on the chord, monotone along it (the parameterisation along the line is not prescribed)
            along = ((p[0] - s[0]) * (e[0] - s[0]) + (p[1] - s[1]) * (e[1] - s[1])) / (chord * chord)
            off = abs((p[0] - s[0]) * (e[1] - s[1]) - (p[1] - s[1]) * (e[0] - s[0])) / chord
            if off > tol or along < -1e-9 or along > 1 + 1e-9 or along < prev - 1e-9:
                return o.violation("zero-radius:point", "zero radius: point(%r) = %r is not a monotone walk along the chord %r-%r (linear would be %r)" % (t, p, s, e, want))
            prev = along
        if not core.pclose(pts[0], s, tol) or not core.pclose(pts[-1], e, tol):
            return o.violation("zero-radius:endpoints", "zero radius: point(0)=%r point(1)=%r" % (pts[0], pts[-1]))
        mid = pts[TS.index(0.5)]
        if core.pclose(mid, s, tol) or core.pclose(mid, e, tol):
            return o.violation("zero-radius:point", "zero radius: point(0.5) = %r sits on an endpoint of the chord %r-%r" % (mid, s, e))
        L = arc.length()
        if abs(L - chord) > 1e-9 * max(chord, S0):
            return o.violation("zero-radius:length", "zero radius: length() = %r, chord is %r" % (L, chord))
        bb = arc.bbox()
        want = (min(s[0], e[0]), min(s[1], e[1]), max(s[0], e[0]), max(s[1], e[1]))
        if any(abs(a - b) > tol for a, b in zip(bb, want)):
            return o.violation("zero-radius:bbox", "zero radius: bbox() = %r, expected %r" % (bb, want))
        return o.ok(nontrivial=False)

    S = max(S0, ref.rx, ref.ry)
    tight = ref.lam < 1.0 - 1e-12
    # conditioning: the start angle is recovered through the ellipse's aspect ratio, so rounding is amplified by
    # (max radius / min radius)^2 in both the library and the reference
    ratio = max(ref.rx, ref.ry) / min(ref.rx, ref.ry)
    tol = ((1e-9 if tight else 1e-6) + 1e-15 * ratio * ratio) * S
    if ref.lam > 1.0:
        o.label("radii:scaled")
    p0, p1 = lib.xy(arc.point(0.0)), lib.xy(arc.point(1.0))
    if p0 != (float(s[0]), float(s[1])) or p1 != (float(e[0]), float(e[1])):
        return o.violation("endpoints-exact", "point(0) = %r, point(1) = %r for arc %r" % (p0, p1, case["arc"]))
    bucket_cls = "negative-radius" if (rx < 0 or ry < 0) else "regular"
    for t in TS:
        p = lib.xy(arc.point(t))
        if p is None:
            return o.violation("non-numeric", "point(%r) = %r" % (t, arc.point(t)))
        w = ref.point(t)
        if not core.pclose(p, w, tol):
            return o.violation("point:%s" % bucket_cls, "arc %r: point(%r) = %r, F.6 gives %r (centre %r, radii %r,%r, theta1 %r, dtheta %r)" % (
                case["arc"], t, p, w, (ref.cx, ref.cy), ref.rx, ref.ry, ref.theta1, ref.dtheta))
        r = ref.implicit(p)
        if abs(r) > (1e-7 if tight else 1e-5) * max(1.0, S / min(ref.rx, ref.ry)):
            return o.violation("off-ellipse:%s" % bucket_cls, "arc %r: point(%r) = %r has implicit residual %r" % (case["arc"], t, p, r))
    sweep = arc.sweep
    if (sweep > 0) != bool(fs) and abs(sweep) > 1e-9:
        return o.violation("sweep-direction", "arc %r: sweep %r but sweep flag %r" % (case["arc"], sweep, fs))
    if abs(abs(ref.dtheta) - math.pi) > 1e-6:
        if (abs(sweep) > math.pi) != bool(fa):
            return o.violation("large-arc", "arc %r: |sweep| = %r but large-arc flag %r" % (case["arc"], abs(sweep), fa))
        if abs(sweep - ref.dtheta) > 1e-6:
            return o.violation("sweep-extent", "arc %r: sweep %r, F.6 gives %r" % (case["arc"], sweep, ref.dtheta))
    rtol = (1e-9 if tight else 1e-7) * S
    if abs(arc.rx - ref.rx) > rtol or abs(arc.ry - ref.ry) > rtol:
        return o.violation("radii:%s" % bucket_cls, "arc %r: radii %r,%r, F.6 gives %r,%r" % (case["arc"], arc.rx, arc.ry, ref.rx, ref.ry))
    if abs(ref.rx - ref.ry) > 1e-9 * S:
        got_rot = float(arc.get_rotation())
        diff = (got_rot - ref.phi) % math.pi
        diff = min(diff, math.pi - diff)
        if diff > 1e-7:
            return o.violation("rotation", "arc %r: rotation %r rad, expected %r rad (mod pi)" % (case["arc"], got_rot, ref.phi))
    o.nontrivial = (rot % 180.0 != 0.0) or abs(abs(rx) - abs(ry)) > 1e-12
    return o.ok()
