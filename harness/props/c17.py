"""
C17 - appending path data continues the parse: Path(a) + b == Path(a b).

Case: {"pieces": [text...], "ops": ["add"|"iadd"|"parse"|"moveadd"...]}   (pieces split at command boundaries)
   or {"concat": [segments_a, kind_b, b]}  for Path + Path / Path + Shape.
Oracle: differential - the same library parser on the joined text (both sides run the same arithmetic on the same
operands, so equality to 1e-12 is expected); the joined text itself is validated by the reference interpreter.
"""
import copy as _copy
import itertools

from .. import core, gen, lib
from ..ref import pathref
from . import c01

PROPERTY = "C17"
RULE = (
    "cases are grammar-conforming path-data strings split at 1..4 command boundaries into pieces, each later "
    "piece applied with a generated operator (p = p + b, p += b, p.parse(b), Move + b), in a third of the cases with "
    "the growing path measured (length, point, bbox) before some steps and compared on those measurements at the end; (pairs) all 20x20 command "
    "pairs with the split between the pair x3 templates x3 operators, enumerated exhaustively; (concat) Path + "
    "Path and Path + Shape. Non-trivial = some later piece begins with a state-dependent command (relative, "
    "smooth, close, H/V); distinct by pieces+operators."
)
ASSUMPTIONS = [
    "half of the appended shapes carry a transform of their own (similarity, reflection, translation; straight shapes also skew / stretch); arcs that went through the shape's d() text are compared within c07.arc_bound(6e-6) (KF-ARC-D-6DIGITS by the arc's conditioning)",
    "the oracle for the joined string is the library's own parser, which C01 checks against the reference interpreter",
    "append(str)/extend(str) are not among the operations the statement lists and are not asserted",
    "Path + Shape goes through the shape's d() text; arcs of rounded shapes are therefore compared at the 6-digit "
    "precision of the arc writer (KF-ARC-D-6DIGITS, C07) and everything else at 1e-9",
]
TOLERANCES = {"point": "1e-12 * scale", "concat-shape-point": "2e-11 * scale (12 significant digits of the d() text)", "concat-shape-arc": "1e-5 * scale (six significant digits of radii/rotation)"}
MANDATORY_LABELS = {"quick": ["ctor:kw", "ctor:dict", "op:add", "op:iadd", "op:parse", "op:moveadd", "concat:path", "concat:shape", "observed-before-step"]}
MANDATORY_LABELS["thorough"] = MANDATORY_LABELS["quick"]

STATE_DEP = set("mlhvcsqtazZHVSTa")


def pair_cases():
    for a, b in itertools.product(c01.LETTERS, c01.LETTERS):
        for ti, tpl in enumerate(c01.TEMPLATES):
            rot = tpl[ti:] + tpl[:ti]
            first = "M 1,2 " + c01._cmd_text(a, tpl, False)
            second = c01._cmd_text(b, rot, ti == 1)
            for op in ("add", "iadd", "parse"):
                yield {"pieces": [first, second], "ops": [op]}
    for b in c01.LETTERS:
        for ti, tpl in enumerate(c01.TEMPLATES):
            yield {"pieces": ["M 3,-4", c01._cmd_text(b, tpl, False)], "ops": ["moveadd"]}


def decode_split(d):
    text, offsets = gen.path_text(d, min_cmds=1, max_cmds=9)
    cuts = offsets[1:]
    k = min(len(cuts), d.int(1, 4))
    chosen = sorted(set(d.choice(cuts) for _ in range(k)))
    pieces = []
    prev = 0
    for c in chosen:
        pieces.append(text[prev:c])
        prev = c
    pieces.append(text[prev:])
    ops = [d.choice(["add", "iadd", "parse"]) for _ in pieces[1:]]
    case = {"pieces": pieces, "ops": ops, "ctor": d.choice(lib.CTOR_FORMS)}
    if d.chance(1, 3):
        # the growing path is measured (length, point, bounding box) before some of the steps
        case["observe"] = [d.bool() for _ in ops]
        if not any(case["observe"]):
            case["observe"][d.below(len(ops))] = True
    return case


SHAPES = ["rect", "rrect", "circle", "ellipse", "line", "polyline", "polygon"]


def decode_concat(d):
    a = gen.path_segments(d, max_subpaths=2, max_segs=3, c=gen.small_coord)
    if d.bool():
        b = ["path", gen.path_segments(d, max_subpaths=2, max_segs=3, c=gen.small_coord)]
    else:
        kind = d.choice(SHAPES)
        x, y = gen.small_coord(d), gen.small_coord(d)
        w, h = abs(gen.small_coord(d)) + 0.5, abs(gen.small_coord(d)) + 0.5
        if kind == "rect":
            b = ["rect", [x, y, w, h, 0, 0]]
        elif kind == "rrect":
            b = ["rect", [x, y, w, h, w / d.choice([3.0, 4.0, 8.0]), h / d.choice([3.0, 4.0, 8.0])]]
        elif kind == "circle":
            b = ["circle", [x, y, w]]
        elif kind == "ellipse":
            b = ["ellipse", [x, y, w, h]]
        elif kind == "line":
            b = ["line", [x, y, x + w, y - h]]
        else:
            n = d.int(2, 5)
            b = [kind, [gen.point(d, gen.small_coord) for _ in range(n)]]
        if d.chance(1, 6):
            # a coordinate of the shape that its d() text writes in exponent form: 2.5E-10, 7.25E-20
            tiny = d.choice([2.5, 7.25, -1.5, 3.0]) * 10.0 ** d.choice([-10, -20, -7, -5, -13])
            if b[0] in ("polyline", "polygon"):
                b[1][d.below(len(b[1]))][d.below(2)] = tiny
            elif b[0] in ("rect", "line"):
                b[1][d.below(2)] = tiny
    case = {"concat": [a, b], "op": d.choice(["add", "iadd"])}
    if b[0] != "path" and d.bool():
        # the shape carries a transform of its own: rotated, mirrored, moved (straight shapes also skewed / stretched)
        straight = b[0] in ("line", "polyline", "polygon") or (b[0] == "rect" and b[1][4] == 0 and b[1][5] == 0)
        case["btransform"] = gen.matrix(d, classes=["similarity", "reflection", "translate"] + (["aniso", "skew"] if straight else []))
    return case


def decode_moveadd(d):
    """a single Move segment + path data; the move's coordinates carry up to seventeen significant digits"""
    def long_number():
        v = gen.loguniform(d, -2.0, 5.0) * (1.0 + d.int(1, 9) * 1.0123456789e-9)
        return repr(v) if d.chance(3, 4) else repr(float("%.6g" % v))
    first = "%s %s,%s" % (d.choice("Mm"), long_number(), long_number())
    cmds = [gen.path_command(d, letters="lLhHvVcCsSqQtTaAzZ") for _ in range(d.int(1, 3))]
    second = " ".join(ch + body for ch, body in cmds)
    return {"pieces": [first, second], "ops": ["moveadd"]}


def parts(tier):
    n = 2500 if tier == "quick" else 20000
    m = 2500 if tier == "quick" else 8000
    return [
        core.Part("pairs", "exhaustive", pair_cases),
        core.Part("splits", "sampled", lambda: gen.cases(decode_split, 512), budget=n),
        core.Part("concat", "sampled", lambda: gen.cases(decode_concat, 256), budget=m, check=check_concat),
        core.Part("moveadd", "sampled", lambda: gen.cases(decode_moveadd, 256), budget=n // 3),
    ]


def snapshot(path):
    out = []
    for s in path:
        out.append((lib.kind_of(s), lib.xy(s.start), lib.xy(s.end), tuple(lib.xy(p) for p in s if p is not None), getattr(s, "sweep", None)))
    return out


def same_paths(o, got, want, S, what, arc_tol=None, rel=1e-12):
    if len(got) != len(want):
        return o.violation("%s:segment-count" % what, "got %d segments, joined text gives %d: %r vs %r" % (len(got), len(want), [lib.kind_of(s) for s in got], [lib.kind_of(s) for s in want]))
    tol = rel * S
    for i, (g, w) in enumerate(zip(got, want)):
        kg, kw = lib.kind_of(g), lib.kind_of(w)
        if kg != kw:
            return o.violation("%s:segment-kind" % what, "segment %d is %s, joined text gives %s" % (i, kg, kw))
        if kg == "A":
            pg, pw = lib.sample(g), lib.sample(w)
            if arc_tol is not None:
                # through d(): six significant digits of radii and rotation (C07's known finding), by the arc's conditioning
                from . import c07
                t = arc_tol + c07.arc_bound(w, 6e-6)
            else:
                t = 1e-9 * S
        else:
            pg = [lib.xy(p) for p in g if p is not None] + [lib.xy(g.end)]
            pw = [lib.xy(p) for p in w if p is not None] + [lib.xy(w.end)]
            if kg == "M":
                pg, pw = [lib.xy(g.end)], [lib.xy(w.end)]
            t = tol
        if len(pg) != len(pw):
            return o.violation("%s:point-count:%s" % (what, kg), "segment %d: %r vs %r" % (i, pg, pw))
        for a, b in zip(pg, pw):
            if a is None or b is None or not core.pclose(a, b, t):
                return o.violation("%s:geometry:%s" % (what, kg), "segment %d (%s): %r, joined text gives %r" % (i, kg, pg, pw))
    return None


def observe(p, S):
    """what a user can measure on a path: length, points along it, bounding box (or the exception type raised)"""
    out = []
    # (a point is asked before the length: the two go through different cache tests)
    for f in (lambda: lib.xy(p.point(0.3, error=1e-4 * S)), lambda: p.length(error=1e-4 * S, min_depth=3), lambda: lib.xy(p.point(0.8, error=1e-4 * S)), lambda: p.bbox()):
        try:
            out.append(f())
        except Exception as e:
            if core.library_frame(e.__traceback__) is None:
                raise
            out.append("raises %s" % type(e).__name__)
    return out


def same_observations(a, b, S):
    for x, y in zip(a, b):
        if isinstance(x, str) or isinstance(y, str) or x is None or y is None:
            if x != y:
                return False
            continue
        xs, ys = (x, y) if isinstance(x, (tuple, list)) else ((x,), (y,))
        if len(xs) != len(ys) or any(abs(u - v) > 1e-9 * max(S, abs(u), abs(v)) for u, v in zip(xs, ys)):
            return False
    return True


def check(case):
    se = lib.L()
    o = core.Obs()
    pieces, ops = case["pieces"], case["ops"]
    joined = " ".join(pieces)
    ref = pathref.interpret(joined)
    if ref.error is not None:
        raise core.HarnessError("generator produced non-conforming joined text %r: %r" % (joined, ref.error))
    if ref.nonfinite:
        return o.excluded("non-finite number")
    want = se.Path(joined)
    S = lib.scale_of([[s.get("s"), s.get("e"), s.get("c"), s.get("c1"), s.get("c2")] for s in ref.segments])
    statedep = False
    if ops == ["moveadd"]:
        r0 = pathref.interpret(pieces[0])
        p = se.Move(se.Point(*r0.segments[0]["e"])) + pieces[1]
        o.label("op:moveadd")
        statedep = pieces[1].lstrip()[:1] in STATE_DEP
        last_kind = "M"
        o.label("after:M first:%s" % pieces[1].lstrip()[:1])
    else:
        p = lib.path_from_text(pieces[0], case.get("ctor", "pos"))
        o.label("ctor:%s" % case.get("ctor", "pos"))
        for step, (piece, op) in enumerate(zip(pieces[1:], ops)):
            first = piece.lstrip()[:1]
            if case.get("observe") and case["observe"][step]:
                o.label("observed-before-step")
                observe(p, S)
            last_kind = lib.kind_of(p[-1]) if len(p) else "-"
            o.label("op:%s" % op, "after:%s first:%s" % (last_kind, first))
            if first in STATE_DEP:
                statedep = True
            if op == "add":
                before = snapshot(p)
                q = p + piece
                if snapshot(p) != before:
                    return o.violation("add-modifies-left-operand", "Path(%r) changed by + %r" % (pieces[0], piece))
                p = q
            elif op == "iadd":
                p += piece
            else:
                p.parse(piece)
    bad = same_paths(o, p, want, S, "append")
    if bad is not None:
        return bad
    if case.get("observe"):
        got_obs, want_obs = observe(p, S), observe(want, S)
        if not same_observations(got_obs, want_obs, S):
            return o.violation("append:measured-history", "the path was measured between the steps %r %r; afterwards [point(0.3), length, point(0.8), bbox] = %r, on Path(joined text) %r" % (pieces, ops, got_obs, want_obs))
    o.nontrivial = statedep
    return o.ok()


def mk_shape(b, **kw):
    """the shape from its parameters; further keyword arguments (paint, ids, ...) go to the constructor as given"""
    se = lib.L()
    kind, v = b
    if kind == "rect":
        return se.Rect(v[0], v[1], v[2], v[3], v[4], v[5], **kw)
    if kind == "circle":
        return se.Circle(v[0], v[1], v[2], **kw)
    if kind == "ellipse":
        return se.Ellipse(v[0], v[1], v[2], v[3], **kw)
    if kind == "line":
        return se.SimpleLine(v[0], v[1], v[2], v[3], **kw)
    if kind == "polyline":
        return se.Polyline(*[tuple(p) for p in v], **kw)
    if kind == "polygon":
        return se.Polygon(*[tuple(p) for p in v], **kw)
    raise core.HarnessError("shape kind %r" % kind)


def check_concat(case):
    se = lib.L()
    o = core.Obs()
    a, b = case["concat"]
    pa = lib.mk_path(a)
    before = snapshot(pa)
    if b[0] == "path":
        other = lib.mk_path(b[1])
        expect_b = [_copy.copy(s) for s in other]
        o.label("concat:path")
        arc_tol = None
        rel = 1e-12
    else:
        bt = case.get("btransform")
        other = mk_shape(b, transform=lib.mk_matrix(bt["m"])) if bt else mk_shape(b)
        expect_b = list(se.Path(other).segments(transformed=True))
        o.label("concat:shape", "concat:%s" % b[0])
        if bt:
            o.label("concat:shape-with-transform", "concat:shape-transform:%s" % bt["cls"])
        arc_tol = 1e-5
        rel = 2e-11  # the shape is appended through its 12-significant-digit d() text
    S = lib.scale_of(a, b[1])
    if case.get("btransform"):
        m = case["btransform"]["m"]
        S = max(S, S * gen.mat_norm(m) * 2 + abs(m[4]) + abs(m[5]))
    if case["op"] == "add":
        res = pa + other
        if snapshot(pa) != before:
            return o.violation("add-modifies-left-operand", "Path + %s changed the left operand" % b[0])
    else:
        res = pa
        res += other
    want = [_copy.copy(s) for s in lib.mk_path(a)] + expect_b
    bad = same_paths(o, list(res), want, S, "concat", arc_tol=(arc_tol * S if arc_tol else None), rel=rel)
    if bad is not None:
        return bad
    o.nontrivial = True
    return o.ok()
