"""
C09 - path-data parsing is total: any string returns or raises ValueError only; the longest valid prefix is
retained; every retained segment is numeric and usable afterwards.

Case: {"d": text}  (+ "fault": label of the mutation that produced it, informational)
Oracle: exception-type predicate + validity predicate over the retained path + follow-up operations must complete
        + (for strings that begin with a moveto) equality with the reference interpreter in error mode.
"""
import itertools
import re
import time

from .. import core, gen, lib
from ..ref import pathref
from . import c01

PROPERTY = "C09"
RULE = (
    "cases are strings: (truncations) every prefix of every command-pair string of C01's exhaustive table; "
    "(mutations) grammar-directed strings with one generated fault - truncation, token deleted / duplicated / "
    "replaced by another token, a stray ASCII, control or non-ASCII character inserted, operands stripped from a "
    "command, the leading move removed, a wrong flag value; (long) strings repeated to 1e4..1e5 characters. "
    "Non-trivial = the reference interpreter reports a grammar error (or the string does not begin with a move) "
    "and the string contains at least one complete command; distinct by the text."
)
ASSUMPTIONS = [
    "longest valid prefix = the segments the reference interpreter (harness/ref/pathref.py) emits before the first "
    "grammar error, one segment per complete argument group",
    "strings whose first error is a comma in a place where the grammar allows only white space (the library treats "
    "commas and white space alike between tokens) are judged on every clause except exact equality of the retained "
    "segments: there the reference's segments must be a prefix of what the library retained",
    "strings that do not begin with a moveto are path fragments the library documents (Path('L3,3')); they are judged "
    "on exception type, numeric points (a None start is accepted on the first segment only) and the follow-up "
    "operations, not on the reference's segment list",
    "numbers that overflow a double (1e999) are judged on exception type and termination only; numbers whose fourth power "
    "leaves the floating point range (beyond 1e75 or below 1e-75; the arc formulas multiply two squares) are judged on exception type, termination and "
    "numeric stored points - an arc that cannot be represented may be rejected with ValueError where it stands",
    "prompt = at most 2 s CPU for inputs up to 1000 characters and time(10n) <= 50 x time(n) + 50 ms on long inputs; "
    "an overrun is re-measured three times before it counts",
]
TOLERANCES = {"retained-segments": "1e-12 * scale against the reference interpreter"}
MANDATORY_LABELS = {
    "quick": ["fault:truncate", "fault:delete", "fault:duplicate", "fault:replace", "fault:stray", "fault:strip-operands", "fault:no-move", "fault:flag", "outcome:ValueError", "outcome:returned"],
    "thorough": ["fault:truncate", "fault:delete", "fault:duplicate", "fault:replace", "fault:stray", "fault:strip-operands", "fault:no-move", "fault:flag", "fault:nonascii", "fault:control", "outcome:ValueError", "outcome:returned"],
}

TOKEN_RE = re.compile(r"[A-Za-z]|[-+]?(?:\d*\.)?\d+(?:[eE][-+]?\d+)?|[\s,]+|.", re.S)
STRAY = ["x", "#", "e", "E", ".", "-", "+", "--", "..", "1e", "e5", "Y", "b", "(", "'", "\"", "&", "0x1", "nan", "inf", "1.", "%"]
CONTROL = ["\x00", "\x01", "\x07", "\x0b", "\x1b", "\x7f", "\x85", "\xa0"]
NONASCII = ["é", "−", "½", "١", "１", "　", "\U0001d7ce", " ", "﻿", "\u017f", "\u212a", "\u0131", "\u00df", "\ufb06", "\u1e9e"]  # + every character whose case mapping lands on ASCII letters (long s -> s, Kelvin sign -> k, ...)


def truncation_cases(both=True):
    seen = set()
    for a, b in itertools.product(c01.LETTERS, c01.LETTERS):
        for compact in ((False, True) if both else (True,)):
            tpl = c01.TEMPLATES[1 if compact else 0]
            d = "M 1,2 " + c01._cmd_text(a, tpl, compact) + ("" if compact else " ") + c01._cmd_text(b, tpl, compact)
            for i in range(len(d) + 1):
                t = d[:i]
                if t not in seen:
                    seen.add(t)
                    yield {"d": t, "fault": "truncate"}


BARE = ["h", "H", "v", "V", "a 1", "A 1 2", "l", "L", "c 1 2", "q", "t", "s 1", "m", "M 1", "z", "Z", "a", "A", "T", "S", "C", "Q",
        "h 5", "H 5", "v 5", "V 5", "a 1 1 0 0 1 5 5", "A 1 1 0 0 1 5 5", "t 1 1", "T 1 1", "s 1 1 2 2", "S 1 1 2 2", "q 1 1 2 2",
        "Q 1 1 2 2", "c 1 1 2 2 3 3", "C 1 1 2 2 3 3", "l 1 1", "L 1 1", "L z", "T z", "C z", "z z", "z L 1 1", "z h 1", "zt1,1"]


def bare_cases():
    for s in BARE:
        yield {"d": s, "fault": "no-move"}
        yield {"d": "M 1 2 " + s, "fault": "strip-operands"}
        yield {"d": "M 1 2 L 3 4 z " + s, "fault": "strip-operands"}
        yield {"d": "M 1 2 " + s + " L 5 6", "fault": "strip-operands"}


def decode_mutation(d):
    text, offsets = gen.path_text(d, min_cmds=1, max_cmds=8)
    toks = TOKEN_RE.findall(text)
    fault = d.choice(["truncate", "delete", "duplicate", "replace", "stray", "strip-operands", "no-move", "flag", "nonascii", "nonascii", "control", "stray", "delete"])
    n = len(toks)
    i = d.below(n) if n else 0
    if fault == "truncate":
        return {"d": text[: d.below(len(text) + 1)], "fault": fault}
    if fault == "delete":
        toks = toks[:i] + toks[i + 1:]
    elif fault == "duplicate":
        toks = toks[: i + 1] + toks[i:]
    elif fault == "replace":
        toks[i] = toks[d.below(n)]
    elif fault == "stray":
        toks.insert(i, d.choice(STRAY))
    elif fault == "nonascii":
        toks.insert(i, d.choice(NONASCII))
    elif fault == "control":
        toks.insert(i, d.choice(CONTROL))
    elif fault == "strip-operands":
        # remove the numbers that follow one command letter
        letters = [k for k, t in enumerate(toks) if len(t) == 1 and t.isalpha() and t not in "eE"]
        if letters:
            k = d.choice(letters)
            j = k + 1
            keep = d.below(3)  # leave 0..2 numbers behind
            kept = 0
            out = toks[: k + 1]
            while j < n and not (len(toks[j]) == 1 and toks[j].isalpha()):
                if re.match(r"[-+.\d]", toks[j]):
                    if kept < keep:
                        out.append(" ")
                        out.append(toks[j])
                        kept += 1
                j += 1
            out.append(" ")
            toks = out + toks[j:]
    elif fault == "no-move":
        # drop the leading move command (letter and its numbers)
        j = 0
        while j < n and not (toks[j].isalpha() and len(toks[j]) == 1):
            j += 1
        j += 1
        while j < n and not (len(toks[j]) == 1 and toks[j].isalpha()):
            j += 1
        toks = toks[j:]
    elif fault == "flag":
        # wreck an arc flag if there is an arc, else append an arc with a bad flag
        bad = d.choice(["2", "9", "-1", "1.0", "01", "t", ".", "11", "00"])
        toks.append(" A 5 5 0 %s %s 7 8 L 1 1" % ((bad, "1") if d.bool() else ("0", bad)))
    return {"d": "".join(toks), "fault": fault}


def long_cases():
    units = ["M1,2L3,4Q5,6,7,8z", "m1 1l2 2c1 1 2 2 3 3", "M0 0A5 5 0 0 1 10 10a1,1,0,1,0,3,3", "M 1 1 " + "1 " * 50, "M1-2-3-4-5-6", "M.5.5.5.5", "M0,0" + "h1v1" * 10]
    for u in units:
        for bad in ("", "x", "L 1"):
            yield {"d": u, "repeat": [200, 2000], "tail": bad, "fault": "long"}


def parts(tier):
    n = 2500 if tier == "quick" else 12000
    return [
        core.Part("truncations", "exhaustive", (lambda: truncation_cases(False)) if tier == "quick" else truncation_cases),
        core.Part("bare", "exhaustive", bare_cases),
        core.Part("mutations", "sampled", lambda: gen.cases(decode_mutation, 512), budget=n),
        core.Part("long", "exhaustive", long_cases, check=check_long),
    ] + ([core.Part("atheris", "fuzz", {"corpus": "corpus/C09", "dict": "corpus/C09.dict", "runs": 60000, "max_len": 256})] if tier == "thorough" else [])


_MISSING = object()
SHEAR = [1.0, 0.5, 0.3, 1.0, 5.0, 7.0]
FOLLOWUPS = ("d", "d-relative", "bbox", "length", "transform")


def do_followup(path, name, scale=1.0):
    if name == "d":
        return path.d()
    if name == "d-relative":
        return path.d(relative=True)
    if name == "bbox":
        return path.bbox()
    if name == "length":
        return path.length(error=1e-3 * scale, min_depth=3)
    if name == "transform":
        return abs(path * lib.mk_matrix(SHEAR)).d()


def parse(text):
    """-> (path, outcome string, exception or None, cpu seconds)"""
    se = lib.L()
    p = se.Path()
    t0 = time.process_time()
    try:
        p.parse(text)
        return p, "returned", None, time.process_time() - t0
    except ValueError as e:
        return p, "ValueError", e, time.process_time() - t0
    except RecursionError as e:
        return p, "RecursionError", e, time.process_time() - t0
    except Exception as e:
        return p, type(e).__name__, e, time.process_time() - t0


NUM_RE = re.compile(r"[-+]?(?:\d*\.)?\d+(?:[eE][-+]?\d+)?")


def overflowing_number(text):
    if "e" not in text and "E" not in text and len(text) < 300:
        return False
    for m in NUM_RE.finditer(text):
        v = float(m.group())
        if v != v or v in (float("inf"), float("-inf")):
            return True
    return False


def extreme_number(text):
    """a number whose fourth power leaves the floating point range (|v| > 1e75 or 0 < |v| < 1e-75)"""
    if "e" not in text and "E" not in text and len(text) < 150:
        return False
    for m in NUM_RE.finditer(text):
        v = abs(float(m.group()))
        if v > 1e75 or 0.0 < v < 1e-75:
            return True
    return False


def first_letter(text):
    for ch in text:
        if ch in pathref.WSP or ch == ",":
            continue
        return ch
    return ""


def check(case):
    o = core.Obs()
    text = case["d"]
    o.label("fault:%s" % case.get("fault", "?"))
    ref = pathref.interpret(text)
    path, outcome, exc, cpu = parse(text)
    o.label("outcome:%s" % (outcome if outcome in ("returned", "ValueError") else "other"))
    fl = first_letter(text)
    # known-finding classes (fragments that contain a segment without any point):
    #   a close path - explicit, or completing an L/C/Q command - before any point exists, and
    #   an explicit curve command (Q/q/C/c) executed with no current point (only closes, if anything, precede it)
    close_first = fl in ("z", "Z") or bool(re.match(r"^[\s,]*[LlCcQq](?:[\s,]|[-+.\deE])*[zZ]", text))
    curve_first = bool(re.match(r"^[\s,zZ]*[QqCc]", text))
    if outcome not in ("returned", "ValueError"):
        if close_first and outcome == "TypeError":
            return o.known("KF-CLOSE-BEFORE-ANY-POINT", "parse of %r raised TypeError resolving a later command against the point-less close" % text)
        where = core.library_frame(exc.__traceback__) or "?"
        return o.violation("exception:%s@%s" % (outcome, where), "%s: %s" % (outcome, str(exc)[:160]))
    if len(text) <= 1000 and cpu > 2.0:
        worst = min(parse(text)[3] for _ in range(3))
        if worst > 2.0:
            return o.violation("slow-parse", "%.1f s CPU for %d characters" % (worst, len(text)))
    if ref.nonfinite or overflowing_number(text):
        o.label("class:nonfinite-number")
        return o.ok(nontrivial=False)

    fragment = fl != "" and fl not in "Mm"
    err_char = text[ref.error[0]] if (ref.error is not None and ref.error[0] < len(text)) else ""
    if fragment:
        o.label("class:fragment")
    if ref.error is not None:
        o.label("class:grammar-error")
        what = re.sub(r"'.*'", "", ref.error[1]).strip()
        letter = ref.spans[-1][1] if ref.spans else "-"
        o.label("error:%s after %s" % (what, letter))

    # ---- clause: numeric points ---------------------------------------------------------------------------
    known_f3 = False
    known_curve = False
    for i, seg in enumerate(path):
        for name, pnt in (("start", seg.start), ("end", seg.end), ("control", getattr(seg, "control", _MISSING)),
                          ("control1", getattr(seg, "control1", _MISSING)), ("control2", getattr(seg, "control2", _MISSING)),
                          ("center", getattr(seg, "center", _MISSING))):
            if pnt is _MISSING:
                continue
            if name == "start" and pnt is None and (i == 0 or lib.kind_of(seg) == "M"):
                continue  # fragments and the informational start of a move
            if lib.xy(pnt) is None:
                if close_first:
                    known_f3 = True
                    continue
                if curve_first and name == "start" and lib.kind_of(seg) in "QC":
                    known_curve = True
                    continue
                return o.violation("non-numeric-point:%s" % lib.kind_of(seg), "after parsing %r segment %d (%s) has %s = %r" % (text, i, lib.kind_of(seg), name, pnt))
    if extreme_number(text):
        # geometry with such numbers overflows or underflows in the products of squares of the arc formulas: judged on the exception type and on
        # the stored points only (an arc that cannot be represented may be rejected with ValueError where it stands)
        o.label("class:extreme-magnitude")
        return o.ok(nontrivial=False)
    # ---- clause: follow-up operations ----------------------------------------------------------------------
    Sfollow = max(1.0, lib.scale_of([[lib.xy(s.start), lib.xy(s.end)] + [lib.xy(getattr(s, n, None)) for n in ("control", "control1", "control2")] for s in path]))
    # (the requested error is relative to the size of what is measured: a curve or an arc can be far larger than the points it joins -
    # control points at 1e24, radii of 1e36 between points 30 apart - and an absolute error below the resolution of such a length never converges)
    for s in path:
        if lib.kind_of(s) == "A":
            for r in (s.rx, s.ry):
                if isinstance(r, (int, float)) and r == r and abs(r) != float("inf"):
                    Sfollow = max(Sfollow, abs(r))
    for name in FOLLOWUPS:
        try:
            do_followup(path, name, Sfollow)
        except RecursionError:
            raise
        except Exception as e:
            if close_first:
                known_f3 = True
                continue
            if curve_first and name in ("bbox", "length", "d-relative"):
                known_curve = True
                continue
            where = core.library_frame(e.__traceback__) or "?"
            return o.violation("followup:%s:%s@%s" % (name, type(e).__name__, where), "%s() after parsing %r raised %s: %s" % (name, text, type(e).__name__, str(e)[:120]))
    if known_f3:
        return o.known("KF-CLOSE-BEFORE-ANY-POINT", "parse of %r keeps a close whose points are None" % text)
    if known_curve:
        return o.known("KF-CURVE-FRAGMENT-NO-START", "parse of %r keeps a curve whose start is None" % text)
    # ---- clause: retained segments = longest valid prefix ---------------------------------------------------
    if not fragment:
        S = lib.scale_of([[s.get("s"), s.get("e"), s.get("c"), s.get("c1"), s.get("c2")] for s in ref.segments])
        if ref.error is not None and err_char == ",":
            o.label("class:comma-leniency")
            if len(path) < len(ref.segments):
                return o.violation("retained-prefix-short", "library kept %d segments, the valid prefix has %d" % (len(path), len(ref.segments)))
            bad = c01.compare_segments(o, ref.segments, list(path)[: len(ref.segments)], S)
        else:
            if ref.error is None and outcome == "ValueError":
                return o.violation("valid-string-rejected", "ValueError on grammar-conforming %r" % text)
            bad = c01.compare_segments(o, ref.segments, path, S)
        if bad is not None:
            bad.bucket = "retained:" + bad.bucket
            bad.detail = "%r: %s" % (text, bad.detail)
            return bad
    complete = len(ref.segments) >= 1 or len(path) >= 1
    o.nontrivial = (ref.error is not None or fragment) and complete
    return o.ok()


def check_long(case):
    o = core.Obs()
    o.label("fault:long")
    unit, (n1, n2), tail = case["d"], case["repeat"], case["tail"]
    times = []
    for n in (n1, n2):
        text = " ".join([unit] * n) + tail
        best = None
        for _ in range(3):
            path, outcome, exc, cpu = parse(text)
            if outcome not in ("returned", "ValueError"):
                where = core.library_frame(exc.__traceback__) or "?"
                return o.violation("exception:%s@%s" % (outcome, where), "%s on %d repetitions of %r" % (outcome, n, unit))
            best = cpu if best is None else min(best, cpu)
            if best < 0.2:
                break
        times.append((len(text), best))
    (l1, t1), (l2, t2) = times
    ratio = l2 / float(l1)
    if t2 > 5.0 * ratio * t1 + 0.05 * ratio:
        return o.violation("superlinear-parse", "%d chars: %.3fs, %d chars: %.3fs" % (l1, t1, l2, t2))
    o.label("class:long-%d" % (10 ** len(str(l2)) // 10))
    return o.ok(nontrivial=True)


# ---- atheris target (thorough tier) --------------------------------------------------------------------------


def fuzz_decode(data):
    """raw bytes -> case; the first byte selects latin-1 or utf-8-with-replacement decoding"""
    if not data:
        return None
    if data[0] & 1:
        text = data[1:].decode("latin-1")
    else:
        text = data[1:].decode("utf-8", "replace")
    return {"d": text, "fault": "fuzz"}


def fuzz_check(case):
    return check(case)
