"""
C18 - copies and derived objects share no mutable state with their source.

Case: {"obj": [family, spec...], "derive": name, "muts": [[side, mutation, args...], ...]}
      side 0 mutates the source x, side 1 the derived object y.
Oracle: invariant over the history - the value snapshot of the side that was NOT mutated is unchanged after every
        step; the operands of non-in-place operators are unchanged by the derivation itself.
"""
import copy as _copy

from .. import core, gen, lib
from . import c02, c17

PROPERTY = "C18"
RULE = (
    "cases are an object of one of the families Point, Matrix, Color, Length, each segment kind, Path, each basic "
    "shape, Group with nested children, Text, Image stub; a derivation from {copy, x*M, abs, Path(x), "
    "Path(x.subpath(i)), x + data, ~M, A*B, group copy}; and a history of 1..6 public mutations applied to either "
    "side (in-place *=, reify, coordinate assignment on stored points, list edits, paint edits, transform edits, "
    "values edits, stroke width, child edits). Non-trivial = at least one mutation changed the mutated side's own "
    "snapshot; distinct by the case."
)
ASSUMPTIONS = [
    'results derived from a subpath view of x (other + subpath, Path(copy(subpath)), Path(subpath * M)) are held to the same independence as Path(subpath)',
    "value snapshot = public state only: coordinates of stored points, segment kinds, transform entries, paint values, "
    "stroke width, id, the values dictionary, shape attributes, children recursively (no private caches)",
]
TOLERANCES = {}
FAMILIES = ["point", "matrix", "color", "length", "seg", "path", "shape", "group", "text", "image"]
MANDATORY_LABELS = {"quick": ["family:%s" % f for f in FAMILIES] + ["derive:copy", "derive:mul", "derive:abs", "derive:Path(x)", "derive:Path(subpath)", "derive:add", "derive:invert", "derive:matmul"]}
MANDATORY_LABELS["thorough"] = MANDATORY_LABELS["quick"]

MATS = ["translate", "similarity", "reflection", "aniso", "shear", "general"]


def decode(d):
    fam = d.choice(FAMILIES + ["path", "path", "shape", "group"])
    c = gen.small_coord
    if fam == "point":
        obj = ["point", gen.point(d, c)]
        derive = d.choice(["copy", "mul", "add"])
    elif fam == "matrix":
        obj = ["matrix", gen.matrix(d)["m"], gen.matrix(d)["m"]]
        if d.chance(1, 3):
            # a translation in inches / millimetres stays a Length inside the matrix until it is rendered with a ppi
            amt = lambda: d.choice(["1", "2.5", "3", "1.2345678901234567", "2.000000000000123", "7", "0.1000000000000001"])
            obj.append("translate(%sin, %smm) scale(2)" % (amt(), amt()) if d.bool() else "translate(%scm, %sin)" % (amt(), amt()))
        derive = d.choice(["copy", "invert", "matmul"])
        if len(obj) > 3:
            derive = "copy"  # (inverting or multiplying symbolic offsets is C04's subject and partly a known finding)
    elif fam == "color":
        obj = ["color", d.below(2 ** 32)]
        derive = "copy"
    elif fam == "length":
        obj = ["length", "%d%s" % (d.int(1, 50), d.choice(["px", "pt", "mm", "%", ""]))]
        derive = d.choice(["copy", "add", "mul"])
    elif fam == "seg":
        obj = ["seg", gen.segment(d, "LQCA", c=c)[1]]
        derive = d.choice(["copy", "mul"])
    elif fam == "path":
        obj = ["path", gen.path_segments(d, max_subpaths=3, max_segs=3, c=c), gen.matrix(d, classes=MATS)["m"] if d.bool() else None, d.bool()]
        derive = d.choice(["copy", "mul", "abs", "Path(x)", "Path(subpath)", "add", "other+subpath", "copy(subpath)", "subpath*M"])
    elif fam == "shape":
        sp = c02.shape_params(d)
        if d.chance(1, 8):
            sp = d.choice([["circle", [1.0, 2.0, 0.0]], ["ellipse", [1.0, 2.0, 3.0, 0.0]], ["rect", [1.0, 2.0, 0.0, 5.0, 0.0, 0.0]], ["polyline", []], ["polygon", [[1.0, 1.0]]]])
        obj = ["shape", sp, gen.matrix(d, classes=MATS)["m"] if d.bool() else None, d.bool()]
        derive = d.choice(["copy", "mul", "abs", "Path(x)"])
    elif fam == "group":
        leaves = [[c02.shape_params(d), gen.matrix(d, classes=MATS)["m"] if d.bool() else None] for _ in range(d.int(1, 3))]
        nested = [[c02.shape_params(d), None] for _ in range(d.int(0, 2))]
        obj = ["group", leaves, nested]
        derive = d.choice(["copy", "copy", "mul"])
    elif fam == "text":
        obj = ["text", d.choice(["hello", "a b", "x"]), gen.point(d, c)]
        if d.chance(2, 3):
            # the outline of the text, placed in .path as the class documents (bbox() reads it)
            obj.append(gen.path_segments(d, max_subpaths=2, max_segs=3, c=c))
        derive = d.choice(["copy", "mul", "abs"])
    else:
        obj = ["image", gen.point(d, c), [abs(c(d)) + 1, abs(c(d)) + 1]]
        if d.chance(2, 3):
            obj.append("%d %d %d %d" % (d.int(0, 5), d.int(0, 5), d.int(1, 40), d.int(1, 40)))  # a viewBox attribute
        derive = d.choice(["copy", "mul"])
    muts = []
    for _ in range(d.int(1, 6)):
        muts.append([d.below(2), d.below(12), gen.matrix(d, classes=MATS)["m"], d.below(8), c(d)])
    return {"obj": obj, "derive": derive, "muts": muts}


def parts(tier):
    n = 10000 if tier == "quick" else 40000
    return [core.Part("histories", "sampled", lambda: gen.cases(decode, 768), budget=n)]


# ---- building ------------------------------------------------------------------------------------------------------


def build(obj):
    se = lib.L()
    fam = obj[0]
    if fam == "point":
        return se.Point(obj[1][0], obj[1][1])
    if fam == "matrix":
        if len(obj) > 3:
            m = se.Matrix(obj[3])
            if "scale" not in obj[3]:
                # the same matrix with the offsets assigned as Length objects (their amounts exactly as written)
                import re as _re
                a, b = _re.findall(r"([0-9.e-]+)(in|mm|cm)", obj[3])
                m = se.Matrix()
                m.e = se.Length(float(a[0]), a[1])
                m.f = se.Length(float(b[0]), b[1])
            return m
        return lib.mk_matrix(obj[1])
    if fam == "color":
        return se.Color("#%08x" % obj[1])
    if fam == "length":
        return se.Length(obj[1])
    if fam == "seg":
        return lib.mk_segment(obj[1])
    if fam == "path":
        p = lib.mk_path(obj[1])
        if obj[2] is not None:
            p *= lib.mk_matrix(obj[2])
        if obj[3]:
            p.fill = se.Color("#12345678")
            p.stroke = se.Color("red")
            p.stroke_width = 2.5
            p.values["data-k"] = "v"
        return p
    if fam == "shape":
        kind, v = obj[1]
        s = c17.mk_shape(["rect" if kind == "rrect" else kind, v])
        if obj[2] is not None:
            s *= lib.mk_matrix(obj[2])
        if obj[3]:
            s.fill = se.Color("#abcdef80")
            s.stroke = se.Color("blue")
            s.stroke_width = 1.5
            s.values["data-k"] = "v"
        return s
    if fam == "group":
        g = se.Group()
        for sp, m in obj[1]:
            s = c17.mk_shape(["rect" if sp[0] == "rrect" else sp[0], sp[1]])
            s.fill = se.Color("green")
            if m is not None:
                s *= lib.mk_matrix(m)
            g.append(s)
        if obj[2]:
            inner = se.Group()
            for sp, m in obj[2]:
                s = c17.mk_shape(["rect" if sp[0] == "rrect" else sp[0], sp[1]])
                s.stroke = se.Color("black")
                inner.append(s)
            g.append(inner)
        return g
    if fam == "text":
        t = se.Text(obj[1], x=obj[2][0], y=obj[2][1])
        t.fill = se.Color("navy")
        if len(obj) > 3:
            t.path = lib.mk_path(obj[3])
            t.path.stroke = se.Color("green")
        return t
    if fam == "image":
        if len(obj) > 3:
            return se.Image(x=obj[1][0], y=obj[1][1], width=obj[2][0], height=obj[2][1], href="nothing.png", viewBox=obj[3])
        return se.Image(x=obj[1][0], y=obj[1][1], width=obj[2][0], height=obj[2][1], href="nothing.png")
    raise core.HarnessError(fam)


# ---- snapshots -----------------------------------------------------------------------------------------------------


def snap_color(c):
    return None if c is None else ("color", c.value)


def snap_matrix(m):
    # (a symbolic offset by its exact amount and unit: the text form of a Length keeps twelve decimals only)
    off = lambda v: (repr(v.amount), v.units) if hasattr(v, "amount") else repr(v)
    return None if m is None else ("matrix", repr(m.a), repr(m.b), repr(m.c), repr(m.d), off(m.e), off(m.f))


def snap_point(p):
    return None if p is None else (repr(p.x), repr(p.y))


def snap_seg(s):
    out = [type(s).__name__, snap_point(s.start), snap_point(s.end)]
    for name in ("control", "control1", "control2", "center", "prx", "pry"):
        if hasattr(s, name):
            out.append(snap_point(getattr(s, name)))
    if hasattr(s, "sweep"):
        out.append(repr(s.sweep))
    return tuple(out)


def snap_values(v):
    if v is None:
        return None
    return tuple(sorted((str(k), repr(x) if not isinstance(x, dict) else "dict") for k, x in v.items()))


def snapshot(x):
    se = lib.L()
    if isinstance(x, se.Point):
        return ("point",) + snap_point(x)
    if isinstance(x, se.Matrix):
        return snap_matrix(x)
    if isinstance(x, se.Color):
        return snap_color(x)
    if isinstance(x, se.Length):
        return ("length", repr(x.amount), x.units)
    if isinstance(x, se.PathSegment):
        return snap_seg(x)
    common = []
    if hasattr(x, "transform"):
        common.append(snap_matrix(x.transform))
        common.append(repr(getattr(x, "apply", None)))
    if hasattr(x, "fill"):
        common += [snap_color(x.fill), snap_color(x.stroke), repr(x.stroke_width)]
    common += [repr(getattr(x, "id", None)), snap_values(getattr(x, "values", None))]
    if isinstance(x, se.Path):
        return ("path", tuple(snap_seg(s) for s in x), tuple(common))
    if isinstance(x, se.Rect):
        return ("rect", repr(x.x), repr(x.y), repr(x.width), repr(x.height), repr(x.rx), repr(x.ry), tuple(common))
    if isinstance(x, (se.Circle, se.Ellipse)):
        return (type(x).__name__, repr(x.cx), repr(x.cy), repr(x.rx), repr(x.ry), tuple(common))
    if isinstance(x, se.SimpleLine):
        return ("line", repr(x.x1), repr(x.y1), repr(x.x2), repr(x.y2), tuple(common))
    if isinstance(x, (se.Polyline, se.Polygon)):
        return (type(x).__name__, tuple(snap_point(p) for p in x.points), tuple(common))
    if isinstance(x, (se.Group, se.Use)):
        return ("group", tuple(snapshot(c) for c in x), tuple(common))
    if isinstance(x, se.Text):
        return ("text", x.text, repr(x.x), repr(x.y), snapshot(x.path) if x.path is not None else None, tuple(common))
    if isinstance(x, se.Image):
        vb = x.viewbox
        vb = None if vb is None else (repr(vb.x), repr(vb.y), repr(vb.width), repr(vb.height), repr(vb.preserve_aspect_ratio))
        return ("image", repr(x.url), repr(x.x), repr(x.y), repr(x.width), repr(x.height), vb, tuple(common))
    raise core.HarnessError("no snapshot for %r" % type(x))


# ---- derivations and mutations -------------------------------------------------------------------------------------


def derive(x, case):
    se = lib.L()
    name = case["derive"]
    obj = case["obj"]
    M = lib.mk_matrix(case["muts"][0][2])
    if name == "copy":
        if isinstance(x, se.Color):
            return se.Color(x), []
        return _copy.copy(x), []
    if name == "mul":
        if isinstance(x, se.Length):
            return x * 2.0, []
        return x * M, [M]
    if name == "abs":
        return abs(x), []
    if name == "Path(x)":
        return se.Path(x), []
    if name == "Path(subpath)":
        subs = list(x.as_subpaths())
        if not subs:
            return se.Path(x), []
        return se.Path(subs[case["muts"][0][3] % len(subs)]), []
    if name in ("other+subpath", "copy(subpath)", "subpath*M"):
        # results made from a subpath view of x: they are paths (or views of a new path) of their own
        subs = list(x.as_subpaths())
        if not subs:
            return se.Path(x), []
        sub = subs[case["muts"][0][3] % len(subs)]
        if name == "other+subpath":
            other = se.Path("M 5,5 L 6,7 Q 1,1 2,2")
            return other + sub, [other]
        if name == "copy(subpath)":
            return se.Path(_copy.copy(sub)), []
        return se.Path(sub * M), [M]
    if name == "add":
        if isinstance(x, se.Point):
            q = se.Point(1.0, 2.0)
            return x + q, [q]
        if isinstance(x, se.Length):
            q = se.Length("3" + x.units)
            return x + q, [q]
        other = se.Path("M 5,5 L 6,7 Q 1,1 2,2")
        return x + other, [other]
    if name == "invert":
        return ~x, []
    if name == "matmul":
        B = lib.mk_matrix(obj[2])
        return x * B, [B]
    raise core.HarnessError(name)


def first_leaf(g):
    se = lib.L()
    for c in g:
        if isinstance(c, se.Shape):
            return c
    return None


def mutate(t, mut):
    """apply one public mutation to t; the choice is interpreted per family (index modulo what is available)"""
    se = lib.L()
    _, k, m6, idx, val = mut
    M = lib.mk_matrix(m6)
    if isinstance(t, se.Point):
        k %= 3
        if k == 0:
            t.x = val
        elif k == 1:
            t *= M
        else:
            t += se.Point(val, 1.0)
        return "point:%d" % k
    if isinstance(t, se.Matrix):
        if isinstance(t.e, se.Length):
            # symbolic offsets: shift them in the ways a Length allows
            k %= 3
            if k == 0:
                t.e += se.Length("1in")
            elif k == 1:
                t.post_translate(se.Length("2mm"), se.Length("0.5in"))
            else:
                t.f -= se.Length("3mm")
            return "matrix-unit:%d" % k
        k %= 4
        if k == 0:
            t.post_translate(val, 2.0)
        elif k == 1:
            t.reset()
        elif k == 2:
            t *= M
        else:
            t.a = val + 2.0
        return "matrix:%d" % k
    if isinstance(t, se.Color):
        k %= 3
        if k == 0:
            t.red = int(abs(val) * 7) % 256
        elif k == 1:
            t.opacity = (abs(val) % 1.0)
        else:
            t.blue = idx * 30
        return "color:%d" % k
    if isinstance(t, se.Length):
        k %= 2
        if k == 0:
            t += se.Length("2" + t.units)
        else:
            t.amount = val
        return "length:%d" % k
    if isinstance(t, se.PathSegment):
        k %= 4
        if k == 0:
            t *= M
        elif k == 1 and t.end is not None:
            t.end.x = val
        elif k == 2 and t.start is not None:
            t.start.y = val
        else:
            t.reverse()
        return "seg:%d" % k
    if isinstance(t, se.Path):
        k %= 12
        n = len(t)
        if k == 0:
            t *= M
        elif k == 1:
            t.reify()
        elif k == 2 and n and t[idx % n].end is not None:
            t[idx % n].end.x = val
        elif k == 3 and n > 1:
            del t[n - 1]
        elif k == 4:
            t.append(se.Line(None, se.Point(val, 3.0)))
        elif k == 5:
            if t.fill is None:
                t.fill = se.Color("red")
            else:
                t.fill.red = (int(abs(val)) * 13 + 5) % 256
        elif k == 6:
            if t.stroke is None:
                t.stroke = se.Color("#00ff0080")
            else:
                t.stroke.opacity = 0.25
        elif k == 7:
            t.stroke_width = (t.stroke_width or 1.0) + 1.0
        elif k == 8:
            t.transform.post_rotate(0.5)
        elif k == 9:
            t.values["mutated"] = "yes"
        elif k == 10 and n:
            seg = t[idx % n]
            if hasattr(seg, "control1"):
                seg.control1.y = val
            elif hasattr(seg, "control"):
                seg.control.x = val
            elif seg.start is not None:
                seg.start.x = val
        else:
            t.reverse()
        return "path:%d" % k
    if isinstance(t, se.Shape):
        k %= 9
        if k == 0:
            t *= M
        elif k == 1:
            t.reify()
        elif k == 2:
            if isinstance(t, se.Rect):
                t.x = val
            elif isinstance(t, (se.Circle, se.Ellipse)):
                t.cx = val
            elif isinstance(t, se.SimpleLine):
                t.x1 = val
            elif len(t.points):
                t.points[idx % len(t.points)].x = val
            else:
                t.points.append(lib.L().Point(val, 1.0))
        elif k == 3:
            if t.fill is None:
                t.fill = se.Color("red")
            else:
                t.fill.green = (int(abs(val)) * 11 + 3) % 256
        elif k == 4:
            if t.stroke is None:
                t.stroke = se.Color("#00ff0080")
            else:
                t.stroke.alpha = 17
        elif k == 5:
            t.stroke_width = (t.stroke_width or 1.0) * 3.0
        elif k == 6:
            t.transform.post_scale(2.0, 0.5)
        elif k == 7:
            t.values["mutated"] = "yes"
        else:
            t.transform.reset()
        return "shape:%d" % k
    if isinstance(t, se.Group):
        k %= 7
        leaf = first_leaf(t)
        if k == 0:
            t *= M
        elif k == 1 and leaf is not None:
            leaf *= M
        elif k == 2 and leaf is not None:
            if leaf.fill is None:
                leaf.fill = se.Color("red")
            else:
                leaf.fill.red = 77
        elif k == 3:
            t.append(se.Rect(0, 0, 1, 1))
        elif k == 4 and len(t) > 1:
            del t[0]
        elif k == 5:
            t.transform.post_translate(val, 1.0)
        else:
            inner = [c for c in t if isinstance(c, se.Group)]
            if inner and len(inner[0]):
                inner[0][0] *= M
            else:
                t.values["mutated"] = "yes"
        return "group:%d" % k
    if isinstance(t, se.Text):
        k %= 7 if t.path is not None else 4
        if k == 0:
            t *= M
        elif k == 4:
            t.path *= M
        elif k == 5:
            t.path *= M
            t.path.reify()
        elif k == 6:
            if t.path.stroke is not None:
                t.path.stroke.green = 3
            if len(t.path):
                t.path[-1].end.x += val
        elif k == 1:
            t.text = t.text + "!"
        elif k == 2:
            if t.fill is None:
                t.fill = se.Color("red")
            else:
                t.fill.blue = 9
        else:
            t.transform.post_translate(1.0, val)
        return "text:%d" % k
    if isinstance(t, se.Image):
        k %= 5 if t.viewbox is not None else 3
        if k == 0:
            t *= M
        elif k == 1:
            t.x = val
        elif k == 3:
            t.viewbox.set_viewbox("1 2 %r 4" % (abs(val) + 1.0))
        elif k == 4:
            t.viewbox.width = abs(val) + 2.0
        else:
            t.transform.post_scale(2.0)
        return "image:%d" % k
    raise core.HarnessError("no mutation for %r" % type(t))


def check(case):
    o = core.Obs()
    fam = case["obj"][0]
    o.label("family:%s" % fam, "derive:%s" % case["derive"], "pair:%s/%s" % (fam, case["derive"]))
    x = build(case["obj"])
    before = snapshot(x)
    y, operands = derive(x, case)
    op_snaps = [snapshot(q) for q in operands]
    if snapshot(x) != before:
        return o.violation("derivation-modifies-source:%s:%s" % (fam, case["derive"]), "%s of %r changed the source" % (case["derive"], case["obj"]))
    if case["derive"] == "copy" and snapshot(y) != before:
        return o.violation("copy-differs:%s" % fam, "copy of %r has a different value: %r vs %r" % (case["obj"], snapshot(y), before))
    sides = [x, y]
    changed_any = False
    for n, mut in enumerate(case["muts"]):
        side = mut[0]
        target, other = sides[side], sides[1 - side]
        snap_other = snapshot(other)
        snap_target = snapshot(target)
        snap_ops = [snapshot(q) for q in operands]
        name = mutate(target, mut)
        o.label("mut:%s" % name)
        if snapshot(target) != snap_target:
            changed_any = True
        if snapshot(other) != snap_other:
            which = "the derived object" if side == 0 else "the source"
            return o.violation("shared-state:%s:%s" % (fam, case["derive"]), "%r: mutation %s of %s changed %s (step %d of %r)" % (
                case["obj"][:2], name, "the source" if side == 0 else "the derived object", which, n, [m[:2] for m in case["muts"]]))
        for q, s0 in zip(operands, snap_ops):
            if snapshot(q) != s0:
                return o.violation("shared-state:operand:%s:%s" % (fam, case["derive"]), "mutation %s changed an operand of the derivation" % name)
    o.nontrivial = changed_any
    return o.ok()
