"""
C15 - lengths are true arc lengths, isometry-invariant, and drive point(t).

Cases:
  {"kind": "seg", "seg": plain, "cls": label, "error": e, "iso": matrix (isometry or uniform scale)}
  {"kind": "path", "segs": [...], "error": e, "ts": [t...]}
Oracle: (a) composite Gauss-Legendre quadrature of the speed function, two resolutions that must agree;
        (b) metamorphic relations between calls of the library itself; (c) the walk of point(t) recomputed from the
        library's own segment lengths.
"""
import copy as _copy
import math

from .. import core, gen, lib
from ..ref import quad
from . import c02

PROPERTY = "C15"
RULE = (
    "cases are (segments) lines, quadratic and cubic Beziers incl. the degenerate classes (zero length, coincident or "
    "collinear controls, doubling back, cusps), endpoint- and centre-form arcs (circular and eccentric, any extent) "
    "x an error setting x an isometry / uniform scale; (paths) generated multi-subpath paths with generated t values; "
    "(histories) a path, 1..4 steps of [measurements in a generated order, then one of ten mutations of the segment list], "
    "after every step the path must measure (point, length, bbox) like a fresh copy of itself. "
    "Non-trivial = a curved segment of non-zero length / a path with >= 2 segments of non-zero length; distinct by "
    "the case."
)
ASSUMPTIONS = [
    'half of the segment cases apply a second isometry to the image of the first (as a product with a copy, or in place): length and end points must follow both maps',
    "reference length = 20-point Gauss-Legendre on 6 and 12 panels per smooth piece (pieces split where a derivative "
    "component vanishes); a case whose two resolutions differ by more than 1e-11 relative is not judged on accuracy",
    "cubic Beziers and non-circular arcs are measured by chord subdivision whose error argument is a per-leaf "
    "threshold: known finding KF-SUBDIVISION-LENGTH. Inside that class a result is tolerated iff it is an under-"
    "estimate that is not shorter than the 64-chord polygon of the curve (the coarsest result min_depth=5 allows: 32 leaves of two chords each)",
    "objects are measured with identity transform at scale <= 100 (error 1e-9 at scale 1e5 takes seconds per curve); "
    "size and case count are bounded, never time",
]
TOLERANCES = {"accuracy": "max(error, 1e-10 * L)", "metamorphic": "2 * error + 1e-9 * L", "point(t)": "1e-9 * S"}
MANDATORY_LABELS = {"quick": ["kind:L", "kind:Q", "kind:C", "kind:A-circular", "kind:A-eccentric", "iso:rotate", "iso:reflect", "iso:translate", "iso:scale", "path", "path:zero-length", "history"] + ["mut:%s" % m_ for m_ in ("append", "insert", "del", "pop", "iadd", "extend", "setitem", "reverse", "mulreify", "subimul")]}
MANDATORY_LABELS["thorough"] = MANDATORY_LABELS["quick"]


def cc(d):
    return gen.coord(d, -2.0, 2.0)


def iso(d):
    k = d.choice(["rotate", "reflect", "translate", "scale", "rotate"])
    if k == "rotate":
        a = math.radians(gen.angle_deg(d))
        m = [math.cos(a), math.sin(a), -math.sin(a), math.cos(a), cc(d), cc(d)]
    elif k == "reflect":
        a = math.radians(gen.angle_deg(d))
        m = list(gen.mat_mul((1.0, 0.0, 0.0, -1.0, 0.0, 0.0), (math.cos(a), math.sin(a), -math.sin(a), math.cos(a), 0.0, 0.0)))
    elif k == "translate":
        m = [1.0, 0.0, 0.0, 1.0, cc(d), cc(d)]
    else:
        s = d.choice([2.0, 0.5, -1.0, 3.0, 0.1, -2.5])
        m = [s, 0.0, 0.0, s, 0.0, 0.0]
    return {"cls": k, "m": [float(v) for v in m]}


def decode_seg(d, errors):
    k = d.choice(["L", "Q", "Q", "C", "C", "C", "A", "A", "E"])
    if k == "E":
        r = abs(gen.loguniform(d, -1, 2, False))
        ry = r if d.bool() else abs(gen.loguniform(d, -1, 2, False))
        sweep = d.choice([1e-3, 0.5, 1.0, math.pi / 2, 3.0, math.pi, 4.0, 2 * math.pi, 7.5]) * d.choice([1, -1])
        seg = ["E", gen.point(d, cc), r, ry, gen.angle_deg(d), gen.r6(d.uniform(-3.0, 3.0)), sweep]
        cls = "A:centre"
    elif k == "A":
        cls, seg = gen.arc_endpoint(d, c=cc, allow_degenerate=True)
        cls = "A:" + cls
        if d.bool():
            seg[3] = seg[2]  # circular
    else:
        cls, seg = gen.segment(d, k, c=cc)
    case = {"kind": "seg", "seg": seg, "cls": cls, "error": d.choice(errors), "iso": iso(d)}
    if d.bool():
        case["iso2"] = iso(d)  # a second map, applied to the image of the first
        case["iso2_inplace"] = d.bool()
    return case


def decode_path(d, errors):
    segs = gen.path_segments(d, max_subpaths=3, max_segs=3, c=cc, arc_degenerate=True)
    if d.chance(1, 10):
        p = gen.point(d, cc)
        segs = [["M", p], ["L", p, p], ["Z"]] if d.bool() else [["M", p], ["L", p, p], ["Q", p, p, p]]
    return {"kind": "path", "segs": segs, "error": d.choice(errors), "ts": [gen.unit_t(d) for _ in range(5)]}


MUTATORS = ["append", "insert", "del", "pop", "iadd", "extend", "setitem", "reverse", "mulreify", "subimul"]
OBSERVATIONS = ["point", "length", "bbox"]


def decode_history(d):
    """a path, and 1..4 steps, each: some measurements in a generated order, then one mutation of the segment list"""
    segs = gen.path_segments(d, max_subpaths=2, max_segs=3, c=gen.small_coord, move_led=True)
    steps = []
    for _ in range(d.int(1, 4)):
        obs = [d.choice(OBSERVATIONS) for _ in range(d.int(0, 3))]
        steps.append({"obs": obs, "mut": d.choice(MUTATORS), "k": d.below(6), "pt": gen.point(d, gen.small_coord), "M": gen.matrix(d, classes=["similarity", "aniso", "reflection", "translate"])["m"]})
    return {"kind": "history", "segs": segs, "steps": steps, "final": [d.choice(OBSERVATIONS) for _ in range(d.int(1, 3))]}


def parts(tier):
    errors = [1e-4, 1e-5, 1e-6] if tier == "quick" else [1e-4, 1e-5, 1e-6, 1e-7]
    n = 700 if tier == "quick" else 3000
    return [
        core.Part("segments", "sampled", lambda: gen.cases(lambda d: decode_seg(d, errors), 160), budget=n),
        core.Part("paths", "sampled", lambda: gen.cases(lambda d: decode_path(d, errors), 512), budget=n // 2),
        core.Part("histories", "sampled", lambda: gen.cases(decode_history, 640), budget=n, check=check_history),
    ]


def measure(p, what, S):
    """one measurement of a path, or the exception type the library raises for it"""
    try:
        if what == "point":
            return [lib.xy(p.point(t, error=1e-4 * S)) for t in (0.3, 0.8)]
        if what == "length":
            return p.length(error=1e-4 * S, min_depth=3)
        return p.bbox()
    except Exception as e:
        if core.library_frame(e.__traceback__) is None:
            raise
        return "raises %s" % type(e).__name__


def same_measure(a, b, S):
    if isinstance(a, str) or isinstance(b, str) or a is None or b is None:
        return a == b
    if isinstance(a, (int, float)):
        return abs(a - b) <= 1e-9 * max(S, abs(a), abs(b))
    flat = lambda v: [x for item in v for x in (item if isinstance(item, (tuple, list)) else (item,))] if isinstance(v, (tuple, list)) else [v]
    fa, fb = flat(a), flat(b)
    if len(fa) != len(fb):
        return False
    for x, y in zip(fa, fb):
        if x is None or y is None:
            if x is not y:
                return False
        elif abs(x - y) > 1e-9 * max(S, abs(x), abs(y)):
            return False
    return True


def check_history(case):
    """whatever was measured before, after a mutation the path measures like a fresh copy of itself"""
    se = lib.L()
    o = core.Obs()
    p = lib.mk_path(case["segs"])
    S = lib.scale_of(case["segs"])
    o.label("history")
    for n, step in enumerate(case["steps"]):
        for what in step["obs"]:
            measure(p, what, S)
        mut, k, pt, M = step["mut"], step["k"], step["pt"], step["M"]
        o.label("mut:%s" % mut, "measured-before:%s" % ("yes" if step["obs"] else "no"))
        try:
            if mut == "append":
                p.append(se.Line(None, se.Point(pt[0], pt[1])))
            elif mut == "insert" and len(p) >= 1:
                i = 1 + k % len(p)
                p.insert(i, se.Line(None, se.Point(pt[0], pt[1])))
            elif mut == "del" and len(p) >= 2:
                del p[1 + k % (len(p) - 1)]
            elif mut == "pop" and len(p) >= 2:
                p.pop()
            elif mut == "iadd":
                p += "l %r,%r q 1,1 2,0" % (pt[0], pt[1])
            elif mut == "extend":
                p.extend([se.Line(None, se.Point(pt[0], pt[1])), se.Line(None, se.Point(pt[1], pt[0]))])
            elif mut == "setitem" and len(p) >= 2:
                i = 1 + k % (len(p) - 1)
                p[i] = se.Line(p[i].start, se.Point(pt[0], pt[1]))
            elif mut == "reverse":
                p.reverse()
            elif mut == "mulreify":
                p *= lib.mk_matrix(M)
                p.reify()
                S = max(S, S * gen.mat_norm(M) * 2 + abs(M[4]) + abs(M[5]))
            elif mut == "subimul" and len(p) >= 1:
                subs = list(p.as_subpaths())
                if subs:
                    sub = subs[k % len(subs)]
                    sub *= lib.mk_matrix(M)
                    S = max(S, S * gen.mat_norm(M) * 2 + abs(M[4]) + abs(M[5]))
        except Exception as e:
            if core.library_frame(e.__traceback__) is None:
                raise
            return o.excluded("mutation %s raised %s" % (mut, type(e).__name__))
        order = case["final"] if n == len(case["steps"]) - 1 else ["point", "length"]
        fresh = se.Path(p)
        for what in order:
            have, want = measure(p, what, S), measure(fresh, what, S)
            if not same_measure(have, want, S):
                return o.violation("history:%s:%s" % (mut, what), "after steps %r: %s of the path = %r, of a fresh copy of it = %r (path now %s)" % (
                    [(s_["obs"], s_["mut"]) for s_ in case["steps"][: n + 1]], what, have, want, p.d()))
    o.nontrivial = any(step["obs"] for step in case["steps"])
    return o.ok()


# ---- reference -------------------------------------------------------------------------------------------------


def reference_length(seg):
    """-> (L*, conclusive)"""
    k = lib.kind_of(seg)
    if k in ("L", "Z"):
        a, b = lib.xy(seg.start), lib.xy(seg.end)
        return math.hypot(b[0] - a[0], b[1] - a[1]), True
    if k == "M":
        return 0.0, True
    if k == "Q":
        p0, p1, p2 = lib.xy(seg.start), lib.xy(seg.control), lib.xy(seg.end)
        ax, ay = 2 * (p1[0] - p0[0]), 2 * (p1[1] - p0[1])
        bx, by = 2 * (p2[0] - 2 * p1[0] + p0[0]), 2 * (p2[1] - 2 * p1[1] + p0[1])
        speed = lambda t: math.hypot(ax + bx * t, ay + by * t)
        breaks = [(-ax / bx) if bx else -1, (-ay / by) if by else -1]
        return quad.arc_length(speed, breaks)
    if k == "C":
        p0, p1, p2, p3 = lib.xy(seg.start), lib.xy(seg.control1), lib.xy(seg.control2), lib.xy(seg.end)
        co = []
        for i in (0, 1):
            a = 3 * (p1[i] - p0[i])
            b = 6 * (p2[i] - 2 * p1[i] + p0[i])
            c = 3 * (p3[i] - 3 * p2[i] + 3 * p1[i] - p0[i])
            co.append((c, b, a))
        speed = lambda t: math.hypot(co[0][0] * t * t + co[0][1] * t + co[0][2], co[1][0] * t * t + co[1][1] * t + co[1][2])
        breaks = quad.quad_roots(*co[0]) + quad.quad_roots(*co[1])
        return quad.arc_length(speed, breaks)
    if k == "A":
        if abs(seg.sweep) < 1e-300:
            a, b = lib.xy(seg.start), lib.xy(seg.end)
            return math.hypot(b[0] - a[0], b[1] - a[1]), True
        rx, ry, st, sw = seg.rx, seg.ry, seg.get_start_t(), seg.sweep
        speed = lambda t: abs(sw) * math.hypot(rx * math.sin(st + sw * t), ry * math.cos(st + sw * t))
        n = max(1, int(abs(sw) / (math.pi / 2)) + 1)
        return quad.arc_length(speed, [i / float(n) for i in range(1, n)])
    raise core.HarnessError("kind %r" % k)


def polygon_length(seg, n=64):
    pts = [lib.xy(seg.point(i / float(n))) for i in range(n + 1)]
    return sum(math.hypot(b[0] - a[0], b[1] - a[1]) for a, b in zip(pts, pts[1:]))


def subdivision_kind(seg):
    k = lib.kind_of(seg)
    if k == "C":
        return True
    if k == "A" and abs(seg.sweep) > 0 and abs(seg.rx - seg.ry) >= 1e-12:
        return True
    return False


def judge_length(o, seg, got, e, what):
    """accuracy clause for one segment; returns (outcome or None, known detail or None)"""
    if not core.isnum(got):
        return o.violation("%s:non-numeric" % what, "length = %r" % (got,)), None
    ref, ok = reference_length(seg)
    if not ok:
        o.label("reference:inconclusive")
        return None, None
    tol = max(e, 1e-10 * ref)
    k = lib.kind_of(seg)
    if k == "A" and abs(seg.sweep) > 0:
        # the quadrature reference of a needle-thin ellipse (ratio 1e4 and beyond) is itself good to about
        # 1e-13 x ratio relative: the speed function has two very sharp minima
        tol = max(tol, 1e-13 * c02.arc_ratio(seg) * ref)
    if abs(got - ref) <= tol:
        return None, None
    if k == "A":
        # a scaled-up arc misses its own stored end points (C05's closure gap) and point(t) jumps there: when that
        # jump exceeds the tolerance, "the true length of its geometry" is not defined to within it
        a, b = lib.xy(seg.point(1e-12)), lib.xy(seg.point(1.0 - 1e-12))
        s0, e0 = lib.xy(seg.start), lib.xy(seg.end)
        if math.hypot(a[0] - s0[0], a[1] - s0[1]) + math.hypot(b[0] - e0[0], b[1] - e0[1]) > tol:
            o.label("reference:inconclusive")
            return None, None
    if subdivision_kind(seg):
        lower = polygon_length(seg) - 1e-9 * max(ref, 1e-3)
        if lower <= got < ref + tol:
            return None, "%s.length(error=%g) = %r, true length %r (short by %.3g = %.0f x error)" % (k, e, got, ref, ref - got, (ref - got) / e)
        return o.violation("%s:accuracy:%s:outside-subdivision-envelope" % (what, k), "%s length(error=%g) = %r, true %r, 64-chord polygon %r" % (k, e, got, ref, lower)), None
    return o.violation("%s:accuracy:%s" % (what, k), "%s length(error=%g) = %r, true length %r (off by %.3g)" % (k, e, got, ref, got - ref)), None


def check(case):
    if case["kind"] == "seg":
        return check_seg(case)
    return check_path(case)


def check_seg(case):
    o = core.Obs()
    e = case["error"]
    seg = c02.mk_seg(case["seg"])
    k = lib.kind_of(seg)
    if k == "A":
        kk = "A-circular" if abs(seg.rx - seg.ry) < 1e-12 else "A-eccentric"
        if abs(seg.sweep) < 1e-300:
            kk = "A-degenerate"
    else:
        kk = k
    o.label("kind:%s" % kk, "cls:%s" % case["cls"], "error:%g" % e, "iso:%s" % case["iso"]["cls"])
    L = seg.length(error=e)
    bad, known = judge_length(o, seg, L, e, "segment")
    if bad is not None:
        bad.detail = "%r: %s" % (case["seg"], bad.detail)
        return bad
    ref, ok = reference_length(seg)
    # (b) metamorphic relations - no reference involved
    M = case["iso"]["m"]
    s = math.sqrt(abs(gen.mat_det(M)))
    img = seg * lib.mk_matrix(M)
    Li = img.length(error=e)
    band = 0.0
    sub_a, sub_b = subdivision_kind(seg), subdivision_kind(img)
    if (sub_a or sub_b) and (case["iso"]["cls"] == "scale" or sub_a != sub_b):
        # both calls live inside the known-finding band [32-chord polygon, true length]; a uniform scale changes the
        # meaning of the absolute error threshold, and a transform can move rx - ry across the library's absolute
        # 1e-12 "is a circle" test - then the two calls use different algorithms
        top = ref if ok else polygon_length(seg, 4096) * (1.0 + 1e-6)
        band = (1.0 + s) * max(0.0, top - polygon_length(seg))
    tol = 2.0 * e * (1.0 + s) + 1e-9 * max(abs(L), abs(Li), 1e-3) + band
    if not core.isnum(Li) or abs(Li - s * L) > tol:
        return o.violation("metamorphic:%s:%s" % (case["iso"]["cls"], k), "%r: length %r, after %s %r length %r (expected %r)" % (case["seg"], L, case["iso"]["cls"], M, Li, s * L))
    if case.get("iso2"):
        # the image mapped once more (as a product with a copy, or in place): still s2 times the length it had
        M2 = case["iso2"]["m"]
        s2 = math.sqrt(abs(gen.mat_det(M2)))
        o.label("second-map:%s-then-%s" % ("mirror" if gen.mat_det(M) < 0 else "direct", "mirror" if gen.mat_det(M2) < 0 else "direct"))
        if case.get("iso2_inplace"):
            img2 = _copy.copy(img)
            img2 *= lib.mk_matrix(M2)
        else:
            img2 = img * lib.mk_matrix(M2)
        L2 = img2.length(error=e)
        band2 = 0.0
        sub_c = subdivision_kind(img2)
        if (sub_a or sub_b or sub_c) and ("scale" in (case["iso"]["cls"], case["iso2"]["cls"]) or not (sub_a == sub_b == sub_c)):
            top = ref if ok else polygon_length(seg, 4096) * (1.0 + 1e-6)
            band2 = (1.0 + s + s * s2) * max(0.0, top - polygon_length(seg))
        tol2 = 2.0 * e * (1.0 + s + s * s2) + 1e-9 * max(abs(L), abs(Li), abs(L2), 1e-3) + band2
        if not core.isnum(L2) or abs(L2 - s * s2 * L) > tol2:
            return o.violation("metamorphic:second-map:%s" % k, "%r: length %r; mapped by %r then %r (%s): length %r, expected %r" % (
                case["seg"], L, M, M2, "in place" if case.get("iso2_inplace") else "product", L2, s * s2 * L))
        # and it still ends where the maps send its end points
        for name, pt in (("start", seg.start), ("end", seg.end)):
            want = gen.mat_apply(M2, gen.mat_apply(M, lib.xy(pt)))
            got = lib.xy(getattr(img2, name))
            Sx = max(1.0, abs(want[0]), abs(want[1]), abs(lib.xy(pt)[0]), abs(lib.xy(pt)[1])) * (1.0 + gen.mat_norm(M)) * (1.0 + gen.mat_norm(M2))
            if not core.pclose(got, want, 1e-9 * Sx):
                return o.violation("metamorphic:second-map:%s-point" % name, "%r mapped by %r then %r: %s = %r, expected %r" % (case["seg"], M, M2, name, got, want))
    rev = _copy.copy(seg)
    rev.reverse()
    Lr = rev.length(error=e)
    if not core.isnum(Lr) or abs(Lr - L) > 2.0 * e + 1e-9 * max(abs(L), 1e-3):
        return o.violation("metamorphic:reverse:%s" % k, "%r: length %r, reversed %r" % (case["seg"], L, Lr))
    if known is not None:
        return o.known("KF-SUBDIVISION-LENGTH", "%r: %s" % (case["seg"], known))
    o.nontrivial = k in "QCA" and L > 0
    return o.ok()


def check_path(case):
    se = lib.L()
    o = core.Obs()
    o.label("path", "error:%g" % case["error"])
    e = case["error"]
    p = lib.mk_path(case["segs"])
    segs = list(p)
    lens = [s.length(error=e) for s in segs]
    total = p.length(error=e)
    S = lib.scale_of(case["segs"])
    if not core.isnum(total) or abs(total - sum(lens)) > 1e-9 * max(sum(lens), 1e-3):
        return o.violation("path:additivity", "path length %r, segment lengths sum to %r (%r)" % (total, sum(lens), lens))
    for s, l in zip(segs, lens):
        if lib.kind_of(s) == "M" and l != 0:
            return o.violation("path:move-has-length", "a move contributes %r" % (l,))
    known = None
    for s, l in zip(segs, lens):
        bad, kn = judge_length(o, s, l, e, "path-segment")
        if bad is not None:
            return bad
        known = known or kn
    # (c) point(t) walks the path in proportion to the lengths
    tol = 1e-9 * S
    first = lib.xy(segs[0].start) if segs[0].start is not None else lib.xy(segs[0].end)
    if lib.kind_of(segs[0]) == "M":
        first_ok = [lib.xy(segs[0].end)] + ([lib.xy(segs[0].start)] if segs[0].start is not None else [])
    else:
        first_ok = [first]
    p0 = lib.xy(p.point(0.0, error=e))
    if p0 is None or not any(core.pclose(p0, f, tol) for f in first_ok):
        return o.violation("point:0", "point(0) = %r, the path begins at %r" % (p0, first_ok))
    p1 = lib.xy(p.point(1.0, error=e))
    if p1 is None or not core.pclose(p1, lib.xy(segs[-1].end), tol):
        return o.violation("point:1", "point(1) = %r, the path ends at %r" % (p1, lib.xy(segs[-1].end)))
    if total == 0:
        o.label("path:zero-length")
        allpts = [lib.xy(q) for s in segs for _, q in c02.stored_points(s) if q is not None]
        for t in case["ts"]:
            q = lib.xy(p.point(t, error=e))
            if q is None or not any(core.pclose(q, a, tol) for a in allpts):
                return o.violation("point:zero-length-path", "point(%r) = %r is none of the path's points" % (t, q))
        return o.ok(nontrivial=False)
    cum = [0.0]
    for l in lens:
        cum.append(cum[-1] + l)
    for t in case["ts"]:
        q = lib.xy(p.point(t, error=e))
        if q is None:
            return o.violation("point:non-numeric", "point(%r) = %r" % (t, p.point(t, error=e)))
        target = t * total
        cands = []
        gap = 0.0
        for i, (s, l) in enumerate(zip(segs, lens)):
            lo, hi = cum[i], cum[i + 1]
            if lo - 1e-12 * total <= target <= hi + 1e-12 * total:
                gap = max(gap, c02.closure_gap(s))  # (a scaled-up arc jumps by its closure gap at both ends, see C05)
                if l > 0:
                    f = min(1.0, max(0.0, (target - lo) / l))
                    cands.append(lib.xy(s.point(f)))
                else:
                    cands.append(lib.xy(s.point(0.0)))
                    cands.append(lib.xy(s.end))
        if not any(c is not None and core.pclose(q, c, tol + 1e-9 * total + gap) for c in cands):
            return o.violation("point:walk", "point(%r) = %r; by the segment lengths %r it should be one of %r" % (t, q, lens, cands))
    if known is not None:
        return o.known("KF-SUBDIVISION-LENGTH", known)
    o.nontrivial = sum(1 for l in lens if l > 0) >= 2
    return o.ok()
