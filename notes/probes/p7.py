from svgelements import *
from fractions import Fraction as F
units = ['', 'px','pt','pc','in','cm','mm','%','em','ex','vw','vh','vmin','vmax']
PPI=96
def ref(amount, u, ppi=PPI, rel=None, fs=None, fh=None, vb=None):
    a = amount
    if u in ('','px'): return a
    if u=='pt': return a*4/3
    if u=='pc': return a*16
    if u=='in': return a*ppi if ppi else None
    if u=='cm': return a*ppi/2.54 if ppi else None
    if u=='mm': return a*ppi/25.4 if ppi else None
    if u=='%': return a*rel/100 if rel is not None else None
    if u=='em': return a*fs if fs else None
    if u=='ex': return a*fh if fh else None
    if vb:
        w,h=vb
        if u=='vw': return a*w/100
        if u=='vh': return a*h/100
        if u=='vmin': return a*min(w,h)/100
        if u=='vmax': return a*max(w,h)/100
    return None
# value
for u in units:
    L = Length("3%s"%u)
    v = L.value(ppi=PPI, relative_length=200, font_size=10, font_height=5, viewbox="0 0 300 100")
    r = ref(3,u,rel=200,fs=10,fh=5,vb=(300,100))
    flag = "" if (isinstance(v,(int,float)) and abs(v-r)<=1e-9*abs(r)) else "  <<<<"
    print("value 3%-5s -> %r ref %r %s" % (u, v, r, flag))
print(Length("3vmin").value(viewbox="0 0 100 300"), Length("3vmax").value(viewbox="0 0 100 300"))
print("unresolved:", [repr(Length("3%s"%u).value()) for u in units])
# binary ops on absolute-family pairs
absu = ['', 'px','pt','pc','in','cm','mm']
import itertools
print("ADD/SUB/DIV/EQ/LT table (x=2, y=3): mark wrong")
for a,b in itertools.product(absu, absu):
    A = Length("2%s"%a); B = Length("3%s"%b)
    ra = ref(2,a); rb = ref(3,b)
    res=[]
    for name,f,expect in [("add",lambda:(A+B).value(ppi=PPI), ra+rb),("sub",lambda:(A-B).value(ppi=PPI), ra-rb),("div",lambda:A/B, ra/rb),("lt",lambda:A<B, ra<rb),("eq",lambda:A==B, abs(ra-rb)<1e-9)]:
        try:
            v=f()
            ok = (v==expect) if isinstance(expect,bool) else abs(v-expect)<=1e-6*max(1,abs(expect))
            res.append("%s=%s%s"%(name, "ok" if ok else "WRONG(%r vs %r)"%(v,expect), ""))
        except Exception as e:
            res.append("%s=%s"%(name,type(e).__name__))
    print("%-3s %-3s"%(a,b), " ".join(res))
# equality of equal-valued different units
for s1,s2 in [("1in","2.54cm"),("1in","25.4mm"),("1cm","10mm"),("3pt","4px"),("4pt","3px"),("1pc","16px"),("1pc","12pt"),("12pt","16px"),("1in","96px"),("0mm","0px"),("50%","50%")]:
    print(s1,s2, Length(s1)==Length(s2), Length(s1)==s2)
print(Length("1in").to_mm(), Length("1in").to_cm(), Length("25.4mm").to_inch(), Length("96px").to_inch(), Length("72pt").to_inch())
print(repr(Length("1e2px").value()), repr(Length("-.5E-1mm").value(ppi=96)), repr(Length("+5").value()), repr(Length("5 px").value()), repr(Length("abc").value()), repr(Length("5Q").value()))
