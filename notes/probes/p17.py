from svgelements import *
from math import *
import random
random.seed(1)
def resid(arc, pt):
    # implicit ellipse residual distance approx: map to unit circle coords
    c=arc.center; rot=arc.get_rotation(); a=arc.rx; b=arc.ry
    dx=pt.x-c.x; dy=pt.y-c.y
    x= dx*cos(rot)+dy*sin(rot); y=-dx*sin(rot)+dy*cos(rot)
    r = hypot(x/a, y/b)
    return abs(r-1)*min(a,b)  # lower bound-ish of distance; use scaled
def check(arc, n=None, quad=False):
    curves = list(arc.as_quad_curves(n) if quad else arc.as_cubic_curves(n))
    if not curves: return (0, 0, 0, 0)
    e0 = abs(curves[0].start-arc.start); e1=abs(curves[-1].end-arc.end)
    joins = max([abs(curves[i].end-curves[i+1].start) for i in range(len(curves)-1)] or [0])
    worst=0
    for c in curves:
        for i in range(33):
            worst=max(worst, resid(arc, c.point(i/32)))
    return (len(curves), max(e0,e1), joins, worst/max(arc.rx,arc.ry))
worstc=0; worstq=0
for it in range(2000):
    rx=10**random.uniform(0,2); ry=rx*10**random.uniform(-2,0)
    if random.random()<0.5: rx,ry=ry,rx
    e = Ellipse(random.uniform(-50,50), random.uniform(-50,50), rx, ry, "rotate(%f)"%random.uniform(-180,180))
    e = abs(e) if False else e
    # build arc natively with arbitrary sweep
    t0=random.uniform(-pi,pi); sw=random.choice([1,-1])*10**random.uniform(-3, log10(2.5*pi))
    arc = Ellipse(random.uniform(-50,50), random.uniform(-50,50), rx, ry).arc_t(t0,t0+sw)
    arc *= Matrix("rotate(%f)"%random.uniform(-180,180))
    nc,ee,jj,ww = check(arc)
    if ww>worstc: worstc=ww; wc=(repr(arc),nc,ee,jj,ww)
    nq,ee2,jj2,ww2 = check(arc, quad=True)
    if ww2>worstq: worstq=ww2; wq=(repr(arc),nq,ee2,jj2,ww2)
    if ee>1e-9 or jj>1e-9 or ee2>1e-9 or jj2>1e-9: print("ENDS/JOINS", repr(arc), ee, jj, ee2, jj2)
print("cubic worst", wc); print("quad worst", wq)
# explicit subdivisions shrink?
arc = Arc((0,0), 10, 4, 25, 1, 1, (6,3))
for n in (None,1,2,4,8,16,32): print(n, check(arc,n), check(arc,n,True))
# zero extent
a = Arc((3,3),5,5,0,0,1,(3,3)); print(list(a.as_cubic_curves()), list(a.as_quad_curves()))
# in-path
p = Path("M0,0 L 5,5 A 10 4 25 1 1 11,8 L 20,20 A 3 3 0 0 0 22 22 z"); q=copy(p); q.approximate_arcs_with_cubics(); print(q.d()[:200], q._is_valid(), len(q))
q=copy(p); q.approximate_arcs_with_quads(0.05); print(len(q), q._is_valid())
q=Path("M0,0 A 5 5 0 0 1 0,0 L 1,1"); q.approximate_arcs_with_cubics(); print(q.d(), q._is_valid())
