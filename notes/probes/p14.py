from svgelements import *
from math import *
import random, time
random.seed(3)
# Gauss-Legendre nodes via numpy-free: use composite GL 5-point
GL5 = [(-0.9061798459386640,0.2369268850561891),(-0.5384693101056831,0.4786286704993665),(0.0,0.5688888888888889),(0.5384693101056831,0.4786286704993665),(0.9061798459386640,0.2369268850561891)]
def quad_len(speed, n=2000):
    tot=0; h=1.0/n
    for i in range(n):
        a=i*h; 
        for x,w in GL5:
            tot += w*speed(a+h*(x+1)/2)*h/2
    return tot
def speed_q(s):
    p0,p1,p2 = s.start,s.control,s.end
    return lambda t: hypot(2*((1-t)*(p1.x-p0.x)+t*(p2.x-p1.x)), 2*((1-t)*(p1.y-p0.y)+t*(p2.y-p1.y)))
def speed_c(s):
    p0,p1,p2,p3 = s.start,s.control1,s.control2,s.end
    def f(t):
        dx = 3*((1-t)**2*(p1.x-p0.x)+2*(1-t)*t*(p2.x-p1.x)+t*t*(p3.x-p2.x))
        dy = 3*((1-t)**2*(p1.y-p0.y)+2*(1-t)*t*(p2.y-p1.y)+t*t*(p3.y-p2.y))
        return hypot(dx,dy)
    return f
def speed_a(s):
    a,b,sw = s.rx,s.ry,s.sweep; t0=s.get_start_t()
    return lambda t: abs(sw)*hypot(a*sin(t0+sw*t), b*cos(t0+sw*t))
def rc(s=100): return random.uniform(-s,s)
for err in (1e-4,1e-6,1e-9):
    worst={'Q':0,'C':0,'A':0}; tm=0
    for it in range(60):
        for kind in "QCA":
            if kind=='Q': seg=QuadraticBezier((rc(),rc()),(rc(),rc()),(rc(),rc())); sp=speed_q(seg)
            elif kind=='C': seg=CubicBezier((rc(),rc()),(rc(),rc()),(rc(),rc()),(rc(),rc())); sp=speed_c(seg)
            else: seg=Arc((rc(),rc()), abs(rc())+1, abs(rc())+1, rc()*2, random.randint(0,1), random.randint(0,1), (rc(),rc())); sp=speed_a(seg)
            t0=time.time(); L=seg.length(error=err); tm+=time.time()-t0
            ref=quad_len(sp, 400)
            d=abs(L-ref)
            if d>worst[kind]: worst[kind]=d
    print("error=%g worst abs dev"%err, worst, "time %.1fs"%tm)
# degenerate quads
for q in [QuadraticBezier((0,0),(5,0),(10,0)), QuadraticBezier((0,0),(10,0),(5,0)), QuadraticBezier((0,0),(0,0),(10,0)), QuadraticBezier((0,0),(0,0),(0,0)), QuadraticBezier((0,0),(5,5),(0,0)), QuadraticBezier((0,0),(-5,0),(10,0)), QuadraticBezier((0,0),(20,0),(10,0)), QuadraticBezier((1,1),(2,2),(3,3.0000001))]:
    try: L=q.length()
    except Exception as e: L=type(e).__name__
    print(q, L, quad_len(speed_q(q),400))
for c in [CubicBezier((0,0),(0,0),(0,0),(0,0)), CubicBezier((0,0),(10,0),(-5,0),(5,0)), CubicBezier((0,0),(10,10),(10,10),(0,0))]:
    print(c, c.length(error=1e-6), quad_len(speed_c(c),2000))
# large coordinates, default error
c = CubicBezier((1e5,1e5),(1.2e5,3e5),(-1e5,2e5),(5e4,-1e5))
for err in (1e-4,1e-9):
    t0=time.time(); L=c.length(error=err); print("big", err, L, quad_len(speed_c(c),2000), time.time()-t0)
