from svgelements import *
def cmp(a,b):
    full = Path(a+" "+b)
    res={}
    for name,f in [("add",lambda: Path(a)+b),("iadd",lambda: Path(a).__iadd__(b)),("parse",lambda: (lambda p:(p.parse(b),p)[1])(Path(a))),("append",lambda:(lambda p:(p.append(b),p)[1])(Path(a))),("extend",lambda:(lambda p:(p.extend(b),p)[1])(Path(a)))]:
        try:
            r=f(); res[name] = "ok" if (len(r)==len(full) and all(type(x)==type(y) and x==y for x,y in zip(r,full))) else "DIFF "+r.d()
        except Exception as e: res[name]="EXC %s"%type(e).__name__
    print("%-28r + %-22r full=%-50s %s"%(a,b,full.d(),res))
cmp("M0,0 L5,5","l 1,1")
cmp("M0,0 L5,5","h 3 v 2")
cmp("M0,0 L5,5 L 5,0","z")
cmp("M0,0 L5,5 L5,0 z","l 1,1 z")
cmp("M0,0 Q1,2 3,0","T 6,0")
cmp("M0,0 Q1,2 3,0","t 3,0")
cmp("M0,0 C1,2 3,4 5,0","S 7,-4 9,0")
cmp("M0,0 C1,2 3,4 5,0","s 2,-4 4,0")
cmp("M0,0 L5,5","m 1,1 l 1,1")
cmp("M0,0 L5,5","a 2 1 0 0 1 3,3")
cmp("M0,0 L5,5","M 9,9 L 1,1 z")
cmp("M0,0 L5,5","L z")
cmp("M1,1 L5,5 M 2,2 L 3,3","z l 1 1")
cmp("M0,0","l 1 1")
cmp("M0,0 L 1,1 z","M 5 5 z")
print((Move((0,0)) + "L7,7z").d(), (Line((0,0),(1,1)) + "l 1,1 z").d(), (QuadraticBezier((0,0),(1,2),(3,0)) + "t 3,0").d(smooth=False))
# path + path / + shape
p = Path("M0,0 L5,5") + Path("M9,9 L 1,1"); print(p.d(), p._is_valid())
p = Path("M0,0 L5,5") + Rect(1,1,2,2); print(p.d())
p = Path("M0,0 L5,5") + Circle(1,1,2); print(p.d())
p = Path("M0,0 L5,5") + (Rect(1,1,2,2)*"translate(10,10)"); print(p.d())
p = Path("M0,0 L5,5"); p += Path("L 9,9 L 1,1"); print(p.d(), [str(s.start) for s in p])
p = "M0,0 L5,5" + Path("M9,9 L 1,1"); print(p.d())
