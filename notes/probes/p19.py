from svgelements import *
from math import *
import io
def rel(sh):
    p1 = Path(sh); p2 = Path(sh.d()); 
    try: e1 = (sh == p1)
    except Exception as e: e1 = type(e).__name__
    try: e2 = (p1 == p2)
    except Exception as e: e2 = type(e).__name__
    try: e3 = (sh == p2)
    except Exception as e: e3 = type(e).__name__
    bb = (sh.bbox(), p1.bbox(), p2.bbox())
    try: ln = (sh.length(error=1e-6), p1.length(error=1e-6), p2.length(error=1e-6))
    except Exception as e: ln = type(e).__name__
    print("%-70s eq %s %s %s\n    bbox %s\n    len %s\n    d=%s" % (repr(sh)[:70], e1,e2,e3, bb, ln, sh.d()))
rel(Rect(1,2,10,6))
rel(Rect(1,2,10,6,2,1))
rel(Rect(1,2,10,6,2,1)*"rotate(30)")
rel(Rect(1,2,10,6,20)*"scale(-1,2)")
rel(Circle(1,2,3.3333333333))
rel(Ellipse(1,2,3,2)*"rotate(33.3333333)")
rel(SimpleLine(1,2,3,4)*"skewX(10)")
rel(Polyline((0,0),(1,1),(1,1),(2,0))*"matrix(1,2,3,4,5,6)")
rel(Polygon((0,0),(1,1),(2,0)))
rel(Polygon())
rel(Rect(0,0,0,5))
rel(Circle(0,0,0))
print(Rect(0,0,0,5).segments(), Rect(0,0,0,5).d(), Circle(0,0,0).d(), Polyline().d(), Polyline((1,1)).d())
# dict / kw / positional
print(Rect({"x":"1","y":"2","width":"10","height":"6","rx":"2"}).d(), Rect(x=1,y=2,width=10,height=6,rx=2).d(), Rect(1,2,10,6,2).d())
print(Rect(1,2,10,6,"10%","50%").d(), Rect(1,2,10,6,rx="200%").d())
print(Circle({"cx":"1","cy":"2","r":"3"}).d(), Circle(cx=1,cy=2,r=3).d(), Circle(1,2,3).d(), Ellipse(1,2,3).d())
# C08 stroke/group
r = Rect(0,0,10,10, stroke="red", stroke_width=2, transform="scale(2,3)")
print(r.bbox(), r.bbox(with_stroke=True), r.bbox(transformed=False, with_stroke=True))
r2 = Rect(0,0,10,10, stroke="none", stroke_width=2); print(r2.bbox(with_stroke=True)); r3=Rect(0,0,10,10, stroke_width=2); print(r3.bbox(with_stroke=True))
g = Group(); g.append(r); g.append(Circle(50,50,5, stroke="blue", stroke_width=4)); g2=Group(); g2.append(SimpleLine(-5,-5,0,0)); g.append(g2); g.append(Group())
print(g.bbox(), g.bbox(with_stroke=True), g.bbox(transformed=False))
print(Group().bbox(), Path().bbox(), Path("M1,1").bbox(), Path("M1,1 M 5,5 L 6,6").bbox(), Path("M1,1 L 2,2 M 9,9").bbox())
svg = SVG.parse(io.StringIO('<svg xmlns="http://www.w3.org/2000/svg" xmlns:xlink="http://www.w3.org/1999/xlink" width="100" height="100"><defs><rect id="r" width="5" height="5"/></defs><use id="u" xlink:href="#r" x="10" y="20"/><g id="g" transform="scale(2)"><circle cx="5" cy="5" r="2" stroke="red" stroke-width="2"/></g></svg>'))
for e in svg.elements():
    if hasattr(e,'bbox'): print(type(e).__name__, e.id, e.bbox(), e.bbox(with_stroke=True))
sp = Path("M0,0 L 5,5 M 10,10 Q 20,20 30,10", transform="scale(2)").subpath(1); print(sp.bbox(), sp.bbox(transformed=False))
