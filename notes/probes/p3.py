from svgelements import *
from math import *
def maxdev(seg, M, n=33):
    segM = seg * M
    worst = 0
    for i in range(n):
        t = i/(n-1)
        a = segM.point(t); b = seg.point(t) * M
        worst = max(worst, hypot(a.x-b.x, a.y-b.y))
    return worst
arc = Arc((0,0), 10, 5, 30, 0, 1, (8,6))
print("arc sweep", arc.sweep, arc.rx, arc.ry, degrees(arc.get_rotation()))
for name in ["rotate(37)","scale(2)","scale(-1,1)","scale(1,-1)","translate(3,4)","scale(2,1)","scale(1,3)","skewX(20)","skewY(-30)","rotate(20) scale(2,1)","scale(2,1) rotate(20)","matrix(1,2,3,4,5,6)","matrix(0,1,1,0,0,0)", "scale(-2,3)"]:
    M = Matrix(name)
    print("%-28s arc dev %.3g   unrot-arc dev %.3g  circ dev %.3g" % (name, maxdev(arc, M), maxdev(Arc((0,0),10,5,0,0,1,(8,6)),M), maxdev(Arc((0,0),7,7,0,1,0,(8,6)),M)))
q = QuadraticBezier((0,0),(3,7),(10,1)); c = CubicBezier((0,0),(3,7),(8,-5),(10,1)); l=Line((1,2),(3,4))
M = Matrix("matrix(1,2,3,4,5,6)")
print(maxdev(q,M), maxdev(c,M), maxdev(l,M))
# shapes
for sh in [Circle(5,5,3), Ellipse(5,5,3,2), Rect(1,2,10,6,2,1), Ellipse(5,5,3,2, "rotate(15)")]:
    for name in ["rotate(37)","scale(2,1)","skewX(20)","scale(2,1) rotate(20)","scale(-1,1)", "scale(-2,3)","matrix(1,2,3,4,5,6)"]:
        M = Matrix(name)
        s2 = sh * M
        p1 = Path(sh) * M   # path from untransformed segs, then transform lazily
        segs_a = s2.segments()
        segs_b = [s * s2.transform for s in sh.segments(transformed=False)] if False else None
        # reference: untransformed shape segments' points mapped by full transform
        base = sh.segments(transformed=False)
        T = s2.transform
        worst=0
        if len(base)!=len(segs_a): print("LEN MISMATCH", type(sh).__name__, name, len(base), len(segs_a)); continue
        for sa, sb in zip(segs_a, base):
            if isinstance(sa, Move): continue
            for i in range(17):
                t=i/16
                a = sa.point(t); b = sb.point(t)*T
                worst=max(worst,hypot(a.x-b.x,a.y-b.y))
        print("%-8s %-26s dev %.3g" % (type(sh).__name__, name, worst))
