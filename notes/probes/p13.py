from svgelements import *
import io, sys
import xml.etree.ElementTree as ET
exec(open('p10.py').read().split("show(\"leak x")[0])
def shapes(svg):
    return [(type(e).__name__, e.id, abs(Path(e)).d(), str(e.fill), str(e.stroke), e.stroke_width) for e in svg.elements() if isinstance(e, Shape)]
def rt(title, doc, **kw):
    print("==", title)
    try:
        s1 = SVG.parse(io.StringIO(doc), **kw)
        x1 = s1.string_xml()
        ET.fromstring(x1)
        s2 = SVG.parse(io.StringIO(x1), **kw)
        x2 = s2.string_xml()
        s3 = SVG.parse(io.StringIO(x2), **kw)
        a,b,c = shapes(s1), shapes(s2), shapes(s3)
        print("  xml1:", x1[:600])
        if a!=b:
            print("  GEN1 != GEN2")
            for i,(p,q) in enumerate(zip(a,b)):
                if p!=q: print("    ", p, "\n    ", q)
            if len(a)!=len(b): print("    len", len(a), len(b))
        if b!=c: print("  GEN2 != GEN3", b, c)
    except Exception as e:
        import traceback; traceback.print_exc(limit=4)
rt("simple", f'<svg {NS} width="100" height="100"><rect id="a" x="1" y="2" width="5" height="5" fill="red" stroke="blue" stroke-width="2" transform="rotate(30)"/><circle id="b" cx="5" cy="5" r="3" fill="none"/><path id="c" d="M0,0 L5,5 Q 1,2 3,4 z" stroke="#12345678"/></svg>')
rt("viewbox", f'<svg {NS} width="200" height="100" viewBox="0 0 50 50"><g transform="scale(2)"><rect id="a" x="1" y="2" width="5" height="5" rx="1" stroke="blue"/><ellipse id="b" cx="5" cy="5" rx="3" ry="2" transform="rotate(10)"/><line id="l" x1="1" y1="1" x2="4" y2="9"/><polyline id="p" points="1,1 2,3 4,4"/><polygon id="q" points="1,1 2,3 4,4"/></g></svg>')
rt("viewbox reify False", f'<svg {NS} width="200" height="100" viewBox="0 0 50 50"><g transform="scale(2)"><rect id="a" x="1" y="2" width="5" height="5" rx="1" stroke="blue"/><ellipse id="b" cx="5" cy="5" rx="3" ry="2" transform="rotate(10)"/></g></svg>', reify=False)
rt("nested svg", f'<svg {NS} width="200" height="100" viewBox="0 0 50 50"><svg x="5" y="5" width="20" height="20" viewBox="0 0 10 10"><rect id="a" x="1" y="2" width="5" height="5"/></svg></svg>')
rt("use xy", f'<svg {NS} width="100" height="100"><defs><rect id="r" width="5" height="5"/></defs><use id="u" xlink:href="#r" x="10" y="20"/></svg>')
rt("neg det", f'<svg {NS} width="100" height="100"><rect id="a" x="1" y="2" width="5" height="5" rx="1" transform="scale(-1,1)"/><circle id="b" cx="5" cy="5" r="3" transform="scale(1,-2)"/><path id="c" d="M0,0 a 5 3 20 0 1 4 4" transform="matrix(1,2,3,4,5,6)"/></svg>')
rt("arc path precision", f'<svg {NS} width="100" height="100"><path id="c" d="M0,0 A 1.23456789,2.3456789 33.333333 0 1 5,5"/></svg>')
rt("units", f'<svg {NS} width="1in" height="1in" viewBox="0 0 10 10"><rect id="a" width="50%" height="1mm" x="1pt"/></svg>')
rt("caller transform", f'<svg {NS} width="100" height="100" viewBox="0 0 10 10"><rect id="a" width="5" height="5"/></svg>', transform="scale(3)")
# programmatic
print("== programmatic")
svg = SVG(); svg.width=100; svg.height=100
g = Group(); 
r = Rect(1,2,10,6,2,1, fill="red", stroke="blue", stroke_width=2); r *= "rotate(20)"
g.append(r); g.append(Circle(5,5,3, fill="none", stroke="green")); g.append(Path("M0,0 L 5,5 z", fill="#11223344"))
g.append(Polyline((0,0),(1,1),(2,0), stroke="red")); g.append(SimpleLine(0,0,5,5, stroke="red")); g.append(Ellipse(1,1,3,2, "scale(-1,2)", fill="blue"))
svg.append(g)
x = svg.string_xml(); print(x)
s2 = SVG.parse(io.StringIO(x)); print(shapes(svg)); print(shapes(s2))
