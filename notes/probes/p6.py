from svgelements import *
from math import *
def t(s, **kw):
    try:
        m = Matrix(s, **kw); print("%-45r -> %s" % (s, repr(m)))
    except Exception as e:
        print("%-45r EXC %s %s" % (s, type(e).__name__, e))
t("translate(10)"); t("translate(10,20)"); t("translate(10 20)"); t("TRANSLATE(10,20)"); t("translateX(5)"); t("translateY(5)")
t("scale(2)"); t("scale(2,3)"); t("scaleX(2)"); t("scaleY(3)")
t("rotate(90)"); t("rotate(90, 10, 10)"); t("rotate(0.25turn)"); t("rotate(100grad)"); t("rotate(1.5707963267948966rad)"); t("rotate(90deg 10 10)")
t("skewX(45)"); t("skewY(45)"); t("skew(45)"); t("skew(45, 10)"); t("skew(45deg,10deg)")
t("matrix(1 2 3 4 5 6)"); t("matrix(1,2,3,4,5)"); t("matrix(1,2,3,4,5,6,7)")
t("translate(1cm, 1in)", ppi=96); t("translate(1cm,1in)"); t("translate(50%, 10%)", width=200, height=100)
t("translate()"); t("rotate()"); t("scale()"); t("rotate(a)"); t("translate(1,2) rotate(90)"); t("rotate(90) translate(1,2)")
t("translate(1,2)rotate(90)"); t("translate(1,2),rotate(90)"); t("translate (1,2)"); t("translate(1e1,-.5e1)"); t("rotate(-30)"); t("scale(1-2)")
t("rotate(90,10)"); t("skewX(45, 10, 10)"); t("translate(1,2) bogus(3) scale(2)"); t("matrix(1,0,0,1,1cm,1cm)", ppi=96)
t("rotate(1e2grad)"); t("rotate(90°)"); t("rotate(3e-1turn)"); t("rotate(1turn)")
print(Point(1,0)*Matrix("translate(1,2) rotate(90)"), Point(1,0)*Matrix("rotate(90) translate(1,2)"))
# inverse
m = Matrix(1,2,3,4,5,6); print(m * ~m, ~m * m)
try: print(~Matrix(1,2,2,4,0,0))
except Exception as e: print(type(e).__name__)
m=Matrix(); m.post_rotate(radians(30), 5, 7); m2=Matrix(); m2.pre_rotate(radians(30),5,7); print(m, m2)
m=Matrix("scale(2,3)"); m.post_scale(2,3,5,7); m2 = Matrix("scale(2,3)"); m2.pre_scale(2,3,5,7); print(repr(m), repr(m2))
