from svgelements import *
from math import *
# C05 degenerate
a = Arc((0,0), 0, 5, 0, 0, 1, (10,10))
print("zero rx:", a.sweep, a.point(0.5), a.length(), a.bbox())
a = Arc((10,10), 5, 0, 0, 0, 1, (0,0))
print("zero ry:", a.sweep, a.point(0.5), a.length(), a.bbox())
p = Path("M0,0 A 0 5 0 0 1 10,10")
print("path zero r:", p.point(0.5), p.length(), p.bbox(), p.d())
a = Arc((3,3), 5, 5, 0, 0, 1, (3,3))
print("coincident:", a.sweep, a.point(0.5), a.length(), a.bbox())
# negative radii
for rx,ry in [(10,5),(-10,5),(10,-5),(-10,-5)]:
    a = Arc((0,0), rx, ry, 30, 0, 1, (8,6))
    print("neg", rx, ry, a.sweep, a.point(0.3), a.rx, a.ry, degrees(a.get_rotation()))
p = Path("M0,0 A -10 -5 30 0 1 8,6"); print(p[1].sweep, p[1].point(0.3))
# too-small radii
a = Arc((0,0), 1, 1, 0, 0, 1, (10,0)); print("small", a.sweep, a.rx, a.ry, a.center, a.point(0.5))
a = Arc((0,0), 1, 1, 0, 1, 0, (10,0)); print("small", a.sweep, a.rx, a.ry, a.center, a.point(0.5))
a = Arc((0,0), 1e-3, 2e-3, 45, 1, 1, (10,7)); print("small", a.sweep, a.rx, a.ry, a.center, a.point(0.5))
# flags
for fa in (0,1):
    for fs in (0,1):
        a = Arc((0,0), 10, 6, 20, fa, fs, (7,3)); print(fa,fs, a.sweep, abs(a.sweep)>pi, a.sweep>0)
# rotation beyond 360
a = Arc((0,0), 10, 6, 20, 0, 1, (7,3)); b = Arc((0,0), 10, 6, 380, 0, 1, (7,3)); c = Arc((0,0), 10, 6, -340-360, 0, 1, (7,3))
print(a.point(0.4), b.point(0.4), c.point(0.4))
# C07 d() precision
p = Path("M0,0 A 1.23456789012,2.34567890123 33.3333333333 0 1 5,5")
print(p.d())
q = Path(p.d())
print(max(abs(p.point(i/20)-q.point(i/20)) for i in range(21)))
p = Path("M0,0 A 1,1 0 0 1 10,0"); print(p.d()); q=Path(p.d()); print(max(abs(p[1].point(i/20)-q[1].point(i/20)) for i in range(21)))
p = Path("M0,0 A 1,3 37 0 1 10,3"); print(p.d()); q=Path(p.d()); print(max(abs(p[1].point(i/20)-q[1].point(i/20)) for i in range(21)), p[1].sweep, q[1].sweep)
