from svgelements import *
from math import *
def segs(p): return [(type(s).__name__, str(s.start), str(s.end)) for s in p]
def rev(d):
    p = Path(d); q = copy(p)
    try:
        q.reverse()
    except Exception as e:
        print(repr(d), "EXC", type(e).__name__, e); return
    r = copy(q); r.reverse()
    ok2 = (r == p)
    print(repr(d)); print("   rev :", q.d()); print("   rev2==orig", ok2, "valid", q._is_valid(), "" if ok2 else "   rev2: "+r.d())
rev("M0,0 L1,1 L2,0")
rev("M0,0 L1,1 L2,0 Z")
rev("M0,0 L1,1 L2,0 L0,0 Z")
rev("M0,0 L1,1 Z M5,5 L6,6 L7,5")
rev("M0,0 L1,1 L2,0 Z L 3,3 L 4,0")
rev("M0,0 L1,1 L2,0 Z L 3,3 L 4,0 Z")
rev("M0,0 Q1,1 2,0 C 3,1 4,-1 5,0 A 2 1 30 0 1 7,1")
rev("M0,0 M1,1 L2,2")
rev("M0,0")
rev("M0,0 Z")
rev("M0,0 L1,1 M 5,5")
rev("M0,0 L 1,1")
rev("M0,0 L1,1 Z Z")
# subpath reverse
p = Path("M0,0 L1,1 L2,0 Z M5,5 L6,6 L7,5 M 9,9 Q 10,10 11,9 z")
for i in range(p.count_subpaths()):
    q = copy(p); q.subpath(i).reverse(); print("sub",i,"->", q.d(), q._is_valid())
# fragment without leading move
p = Path(Line((0,0),(1,1)), Line((1,1),(2,0))); q=copy(p); q.reverse(); print(q.d(), segs(q))
