from svgelements import *
from math import *
import random
random.seed(5)
def rc(scale=100): return random.uniform(-scale, scale)
def dense_bbox(seg, n=2001):
    xs=[];ys=[]
    for i in range(n):
        p=seg.point(i/(n-1)); xs.append(p.x); ys.append(p.y)
    return min(xs),min(ys),max(xs),max(ys)
bad=0
worst_c=0; worst_t=0
for it in range(3000):
    kind = random.choice("QCA")
    if kind=="Q": seg=QuadraticBezier((rc(),rc()),(rc(),rc()),(rc(),rc()))
    elif kind=="C": seg=CubicBezier((rc(),rc()),(rc(),rc()),(rc(),rc()),(rc(),rc()))
    else:
        seg=Arc((rc(),rc()), abs(rc())+1, abs(rc())+1, random.choice([0,90,180,270,rc()*4, 45]), random.randint(0,1), random.randint(0,1), (rc(),rc()))
    bb = seg.bbox(); db = dense_bbox(seg, 801)
    # containment: bb must contain db (up to eps); tightness: db within small of bb
    eps=1e-6
    contain = bb[0]<=db[0]+eps and bb[1]<=db[1]+eps and bb[2]>=db[2]-eps and bb[3]>=db[3]-eps
    # dense sampling underestimates by up to ~ curvature*dt^2; allow 1e-2 relative
    span = max(bb[2]-bb[0], bb[3]-bb[1], 1e-9)
    tight = max(abs(bb[0]-db[0]),abs(bb[1]-db[1]),abs(bb[2]-db[2]),abs(bb[3]-db[3]))
    if not contain or tight > 1e-3*span+1e-3:
        bad+=1
        if bad<8: print(kind, repr(seg), bb, db)
print("bad", bad)
# arcs with native sweeps beyond full turn
e = Ellipse(0,0,10,5)
a = e.arc_t(0.3, 0.3+7.5)
print(a.sweep, a.bbox(), dense_bbox(a))
a = Arc((0,0),(0,0),(5,0),(10,0),(5,3), tau)  # full turn native
print(a.bbox(), dense_bbox(a))
