from svgelements import *
import io, traceback
NS='xmlns="http://www.w3.org/2000/svg" xmlns:xlink="http://www.w3.org/1999/xlink"'
def parse(doc, **kw):
    try:
        svg = SVG.parse(io.StringIO(doc), **kw)
        out=[]
        for e in svg.elements():
            if isinstance(e, Shape): out.append((type(e).__name__, e.id, abs(Path(e)).d(), str(e.fill), str(e.stroke), e.stroke_width))
        return out
    except RecursionError as e:
        return "RecursionError"
    except Exception as e:
        return "EXC %s: %s" % (type(e).__name__, e)
def show(title, doc, **kw):
    print("==", title); r = parse(doc, **kw)
    if isinstance(r,str): print("  ", r)
    else:
        for x in r: print("  ", x)
show("leak x from nested svg", f'<svg {NS} width="100" height="100"><svg x="10" y="20" width="50" height="50" viewBox="0 0 50 50"><rect width="5" height="5"/></svg></svg>')
show("leak width from root svg", f'<svg {NS} width="100" height="80"><rect x="1" y="1"/><circle/></svg>')
show("leak rx from rect? (no, siblings)", f'<svg {NS} width="100" height="80"><g><rect x="1" y="1" width="10" height="10" rx="2"/><rect x="20" y="1" width="10" height="10"/></g></svg>')
show("percent after nested svg", f'<svg {NS} width="100" height="100" viewBox="0 0 100 100"><svg width="10" height="10" viewBox="0 0 10 10"><rect width="50%" height="50%"/></svg><rect width="50%" height="50%"/></svg>')
show("use x y", f'<svg {NS} width="100" height="100"><defs><rect id="r" width="5" height="5"/></defs><use xlink:href="#r" x="10" y="20" transform="scale(2)"/><use href="#r" x="1"/></svg>')
show("use of group + nested use", f'<svg {NS} width="100" height="100"><defs><g id="gg" transform="translate(1,1)"><rect id="r" width="5" height="5"/><use xlink:href="#r" x="10"/></g></defs><use xlink:href="#gg" y="20"/></svg>')
show("display none + defs", f'<svg {NS} width="100" height="100"><defs><circle id="c" r="3"/></defs><g display="none"><rect width="5" height="5"/></g><g style="display:none"><rect width="6" height="5"/></g><rect width="7" height="5" display="none"/><rect width="8" height="5"/></svg>')
show("reify false", f'<svg {NS} width="100" height="100" viewBox="0 0 50 50"><g transform="rotate(30)"><rect x="1" width="5" height="5" transform="skewX(10)"/><circle cx="5" cy="5" r="2" transform="scale(2,1) rotate(20)"/></g></svg>', reify=False)
show("reify true", f'<svg {NS} width="100" height="100" viewBox="0 0 50 50"><g transform="rotate(30)"><rect x="1" width="5" height="5" transform="skewX(10)"/><circle cx="5" cy="5" r="2" transform="scale(2,1) rotate(20)"/></g></svg>', reify=True)
show("caller transform", f'<svg {NS} width="100" height="100" viewBox="0 0 50 50" transform="translate(1,0)"><rect width="5" height="5"/></svg>', transform="scale(3)")
show("units", f'<svg {NS} width="1in" height="1in"><rect x="1mm" y="1pt" width="1cm" height="1pc"/><line x1="10%" y1="10%" x2="1in" y2="50%"/><circle cx="50%" cy="50%" r="10%"/><ellipse cx="1in" cy="0.5in" rx="10%" ry="10%"/></svg>', ppi=100)
show("polyline/polygon", f'<svg {NS} width="100" height="100"><polyline points="1,2 3,4 5,6"/><polygon points="1 2,3 4 5 6"/><polyline points=""/><polygon points="1,2"/></svg>')
show("rect rx auto/clamp", f'<svg {NS} width="100" height="100"><rect width="10" height="6" rx="2"/><rect width="10" height="6" ry="2"/><rect width="10" height="6" rx="20" ry="1"/><rect width="10" height="6" rx="0" ry="2"/><rect width="10" height="6" rx="10%"/><rect width="0" height="6"/><rect width="10" height="-6"/></svg>')
