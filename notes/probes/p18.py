from svgelements import *
def snap(x):
    if isinstance(x, Path): return (x.d(transformed=False), repr(x.transform), str(x.fill), str(x.stroke), x.stroke_width, x.id, dict(x.values) if x.values else None)
    if isinstance(x, Shape): return (repr(x), x.d(transformed=False), dict(x.values) if x.values else None)
    if isinstance(x, Group): return (repr(x.transform), [snap(c) for c in x], x.id)
    return repr(x)
def test(name, make, derive, mutate):
    x = make(); before = snap(x); y = derive(x); 
    try: mutate(y)
    except Exception as e: print(name, "mutate EXC", type(e).__name__, e); return
    after = snap(x)
    print("%-60s %s" % (name, "ok" if before==after else "ALIASED\n    %s\n    %s"%(before,after)))
mk_path = lambda: Path("M0,0 L5,5 Q 1,2 3,4 A 2 1 0 0 1 5,5 z", fill="red", stroke="blue", transform="rotate(10)")
def mut_path_points(y): y[1].end.x = 99; y[1].end *= Matrix("scale(2)")
def mut_transform(y): y.transform.post_scale(3); 
def mut_imul(y): y *= "scale(2)"
def mut_reify(y): y.reify()
def mut_fill(y): y.fill.red = 7; y.stroke.opacity=0.1
def mut_values(y): y.values['foo']='bar'
def mut_seglist(y): del y[1]
for dname, d in [("copy",copy),("Path(x)",Path),("x*M",lambda x:x*Matrix("translate(1,1)")),("abs",abs)]:
    for mname, m in [("points",mut_path_points),("transform",mut_transform),("imul",mut_imul),("reify",mut_reify),("fill",mut_fill),("values",mut_values),("seglist",mut_seglist)]:
        test("Path %s then %s"%(dname,mname), mk_path, d, m)
# subpath -> path
def d_sub(x): return Path(x.subpath(0))
test("Path(subpath) points", mk_path, d_sub, mut_path_points)
test("Path(subpath) reify", mk_path, d_sub, mut_reify)
test("Path(subpath) fill", mk_path, d_sub, mut_fill)
# shapes
for mk,nm in [(lambda: Rect(1,2,3,4,1,1,fill="red",stroke="blue",transform="rotate(10)"),"Rect"),(lambda: Circle(1,2,3,fill="red",stroke="blue",transform="scale(2)"),"Circle"),(lambda: Polyline((0,0),(1,1),(2,0),fill="red",stroke="blue",transform="scale(2)"),"Polyline"),(lambda: SimpleLine(0,0,1,1,fill="red",stroke="blue",transform="scale(2)"),"SimpleLine")]:
    for dname, d in [("copy",copy),("x*M",lambda x:x*Matrix("translate(1,1)")),("abs",abs),("Path(x)",Path)]:
        for mname, m in [("transform",mut_transform),("imul",mut_imul),("reify",mut_reify),("fill",mut_fill),("values",mut_values)]:
            test("%s %s then %s"%(nm,dname,mname), mk, d, m)
def mut_pts(y): y.points[0].x=99; y.points[1] *= Matrix("scale(5)")
test("Polyline copy then points", lambda: Polyline((0,0),(1,1),(2,0)), copy, mut_pts)
test("Polyline Path(x) then seg points", lambda: Polyline((0,0),(1,1),(2,0)), Path, lambda y: setattr(y[1].end,'x',99))
test("Polyline abs then points", lambda: Polyline((0,0),(1,1),(2,0)), abs, mut_pts)
test("Polyline x*M then reify", lambda: Polyline((0,0),(1,1),(2,0)), lambda x: x*Matrix("scale(2)"), mut_reify)
# group
def mk_group():
    g = Group(); g.append(Rect(0,0,1,1,fill="red")); g2=Group(); g2.append(Circle(0,0,1)); g.append(g2); return g
def mut_child(y): y[0] *= "scale(2)"; y[0].fill.red=3; y[1][0].reify(); y[1][0] *= "scale(3)"; y[1].append(Rect())
test("Group copy then child", mk_group, copy, mut_child)
test("Group copy then imul", mk_group, copy, lambda y: y.__imul__(Matrix("scale(2)")))
# segments
for mk,nm in [(lambda: Line((0,0),(1,1)),"Line"),(lambda: Move((0,0),(1,1)),"Move"),(lambda: Close((0,0),(1,1)),"Close"),(lambda: QuadraticBezier((0,0),(1,1),(2,0)),"Quad"),(lambda: CubicBezier((0,0),(1,1),(2,0),(3,3)),"Cubic"),(lambda: Arc((0,0),2,1,0,0,1,(1,1)),"Arc")]:
    test(nm+" copy then imul", mk, copy, lambda y: y.__imul__(Matrix("scale(2)")))
    test(nm+" x*M then point edit", mk, lambda x: x*Matrix("scale(2)"), lambda y: setattr(y.end,'x',99))
    test(nm+" copy then point edit", mk, copy, lambda y: (setattr(y.start,'x',99), setattr(y.end,'y',98)))
test("Arc copy then center edit", lambda: Arc((0,0),2,1,0,0,1,(1,1)), copy, lambda y: (setattr(y.center,'x',99), setattr(y.prx,'x',9), setattr(y.pry,'x',9)))
# construction from points aliasing: Line(p,q) shares p?
p = Point(1,1); l = Line(p,(2,2)); l *= Matrix("scale(2)"); print("Line ctor aliasing point:", p)
p = Point(1,1); pl = Polyline(p,(2,2)); pl.reify(); pl*= "scale(2)"; pl.reify(); print("Polyline ctor aliasing:", p)
m = Matrix("scale(2)"); r = Rect(0,0,1,1,0,0,m); r *= "scale(3)"; print("Rect ctor matrix alias:", m)
c = Color("red"); r = Rect(0,0,1,1,fill=c); r.fill.red=0; print("Rect ctor color alias:", c)
m = Matrix("scale(2)"); m2 = m*Matrix("scale(3)"); print(m, ); n=~m; print(repr(m))
a = Matrix("scale(2)"); b=Matrix("translate(1,1)"); c=a*b; print(repr(a),repr(b))
t = Text("hi", x=1, y=2, fill="red", transform="scale(2)"); t2=copy(t); t2.fill.red=0; t2 *= "scale(3)"; t2.transform.post_scale(2); print(t.fill, repr(t.transform))
