from svgelements import *
import io
vt = Viewbox.viewbox_transform
print(repr(vt(0,0,100,50, 0,0,10,10, None)))
print(repr(vt(0,0,100,50, 0,0,10,10, "xMinYMin")))
print(repr(vt(0,0,100,50, 0,0,10,10, "xMaxYMax slice")))
print(repr(vt(0,0,100,50, 0,0,10,10, "none")))
print(repr(vt(5,7,100,50, -3,2.5,10,10, "xMidYMax meet")))
print(repr(vt(0,0,1e-3,1e-3, 0,0,1e3,2e3, "xMidYMid")))
print(repr(vt(0,0,100,100, 0,0,100,100, None)), repr(vt(0,0,100,100, 0,0,None,100, None)))
print(repr(vt(0,0,100,50, 0,0,10,10, "xMidYMid  slice")))
print(repr(vt(0,0,100,50, 0,0,10,10, " xMidYMid slice")))
try: print(repr(vt(0,0,100,50, 0,0,0,10, None)))
except Exception as e: print(type(e).__name__)
def parse(doc, **kw):
    try:
        svg = SVG.parse(io.StringIO(doc), **kw)
        out=[]
        for e in svg.elements():
            if isinstance(e, Shape): out.append((type(e).__name__, abs(Path(e)).d() if not isinstance(e,Path) else abs(e).d(), repr(e.transform)))
        return svg, out
    except Exception as e:
        import traceback; traceback.print_exc(limit=3)
        return None, type(e).__name__
s,o = parse('<svg xmlns="http://www.w3.org/2000/svg" width="200" height="100" viewBox="0 0 20 20"><rect x="0" y="0" width="20" height="20"/></svg>'); print(s.viewbox_transform, o)
s,o = parse('<svg xmlns="http://www.w3.org/2000/svg" width="200" height="100" viewBox="0 0 20 20" preserveAspectRatio="xMaxYMid slice"><rect x="0" y="0" width="20" height="20"/></svg>'); print(s.viewbox_transform, o)
s,o = parse('<svg xmlns="http://www.w3.org/2000/svg" width="2in" height="50%" viewBox="0 0 20 20"><rect x="0" y="0" width="20" height="20"/></svg>', width=300, height=400); print(s.viewbox_transform, s.width, s.height, o)
s,o = parse('<svg xmlns="http://www.w3.org/2000/svg" viewBox="0 0 20 30"><rect x="0" y="0" width="50%" height="50%"/></svg>'); print(s.viewbox_transform, s.width, s.height, o)
s,o = parse('<svg xmlns="http://www.w3.org/2000/svg" viewBox="0 0 0 30" width="10" height="10"><rect x="0" y="0" width="5" height="5"/></svg>'); print(s, o)
s,o = parse('<svg xmlns="http://www.w3.org/2000/svg" viewBox="0 0 20 30" width="0" height="10"><rect x="0" y="0" width="5" height="5"/></svg>'); print(s, o)
s,o = parse('<svg xmlns="http://www.w3.org/2000/svg" viewBox="0 0 20" width="10" height="10"><rect x="0" y="0" width="5" height="5"/></svg>'); print(s.viewbox_transform, o)
s,o = parse('<svg xmlns="http://www.w3.org/2000/svg" width="10" height="10"><rect x="0" y="0" width="5" height="5"/></svg>'); print(repr(s.viewbox_transform), o)
s,o = parse('<svg xmlns="http://www.w3.org/2000/svg" viewBox="0 0 20 20"><rect x="0" y="0" width="5" height="5"/></svg>', width="4in", height="200"); print(repr(s.viewbox_transform), s.width, s.height, o)
