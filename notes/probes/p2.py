from svgelements import *
import traceback
M = Matrix("rotate(30) scale(2,3) skewX(10) translate(4,5)")
def ops(p):
    out=[]
    for name,f in [("d",lambda: p.d()),("drel",lambda: p.d(relative=True)),("dsm",lambda: p.d(smooth=True)),("bbox",lambda: p.bbox()),("len",lambda: p.length(error=1e-5)),("absM",lambda: abs(p*M).d()),("point",lambda:p.point(0.3)),("rev",lambda: copy(p).reverse())]:
        try:
            out.append((name, "ok", str(f())[:40]))
        except Exception as e:
            out.append((name, type(e).__name__, str(e)[:40]))
    return out
for d in ["L 5 5","z","M0,0H","l 5 5 l 1 1","Z L 1 1","T 1 1", "S 1 1 2 2", "Q 1 1 2 2","C 1 1 2 2 3 3","H 5","V 5","M0,0 L z","M 5 5 z z","A 1 1 0 0 1 5 5", "M0 0", "", "M0 0 M 1 1", "M0,0 A 0 0 0 0 0 5 5", "M 1e400 0 L 1 1", "M 1e308 0 L -1e308 0", "M0 0 L 1e-400 0"]:
    try:
        p = Path(d); st="ret"
    except ValueError:
        st="VE"; p=None
    except Exception as e:
        st=type(e).__name__; p=None
    print(repr(d), st, [ (type(s).__name__, s.start, s.end) for s in p] if p is not None else None)
    if p is not None:
        for o in ops(p): 
            if o[1]!="ok": print("    ", o)
# partial retention on error
p = Path()
try:
    p.parse("M0,0 L 1,1 L 2,2 h")
except Exception as e:
    print("exc", type(e).__name__)
print(len(p), p.d())
p = Path()
try:
    p.parse("M0,0 L 1,1 L 2,2 3")
except Exception as e:
    print("exc", type(e).__name__)
print(len(p), p.d())
