import re, colorsys
from svgelements import *
tab={}
for line in open('/usr/share/vim/vim90/colors/lists/csscolors.vim'):
    m=re.search(r"'css_(\w+)': '#([0-9a-fA-F]{6})'", line)
    if m: tab[m.group(1)] = int(m.group(2),16)
print(len(tab))
bad=[]
for k,v in tab.items():
    for sp in (k, k.upper(), k.title()):
        c=Color(sp)
        if c.value != ((v<<8)|0xFF): bad.append((sp, hex(c.value), hex(v)))
print("keyword mismatches", bad)
print("transparent", hex(Color("transparent").value), Color("none").value, Color("currentColor").value if False else "")
for s in ["#abc","#abcd","#aabbcc","#aabbccdd","abc","#ABC","#abcde","#ab","rgb(1,2,3)","rgb( 1 , 2 , 3 )","rgba(1,2,3,0.5)","rgb(300,-5,3)","rgb(10%,20%,30%)","rgb(150%,-5%,50%)","rgba(10%,20%,30%,0.25)","hsl(120,100%,50%)","hsl(480,100%,50%)","hsl(-240,100%,50%)","hsl(120deg,100%,25%)","hsla(120,100%,50%,0.3)","hsl(0.5turn,50%,50%)","rgb(1.5,2,3)","RGB(1,2,3)","rgb(1 2 3)","hsl(120,100,50)", "rgb(1,2,3,1.5)", "rgba(1,2,3,-1)", "bogus", "  red  ", "re d"]:
    try:
        c=Color(s); print("%-26r -> %s"%(s, c.hexa))
    except Exception as e: print("%-26r EXC %s %s"%(s,type(e).__name__,e))
# hsl reference compare
import itertools
worst=0
for h in range(-720, 721, 7):
    for s_ in (0,13,50,100):
        for l in (0,10,50,77,100):
            c=Color("hsl(%d,%d%%,%d%%)"%(h,s_,l))
            r,g,b = colorsys.hls_to_rgb((h%360)/360.0, l/100.0, s_/100.0)
            d = max(abs(c.red-255*r),abs(c.green-255*g),abs(c.blue-255*b))
            if d>worst: worst=d; w=(h,s_,l,c.hexa,(255*r,255*g,255*b))
print("hsl worst", worst, w)
# accessor round trips
c = Color("#12345678")
print(c.red,c.green,c.blue,c.alpha, hex(c.rgb), hex(c.bgr), hex(c.argb), hex(c.rgba), c.hex, c.opacity)
for attr,val in [("red",200),("green",201),("blue",202),("alpha",203),("opacity",0.5)]:
    c = Color("#12345678"); setattr(c,attr,val); print(attr, c.hexa)
c = Color("#12345678"); c.rgb = 0xabcdef; print("rgb", c.hexa)
c = Color("#12345678"); c.bgr = 0xabcdef; print("bgr", c.hexa)
c = Color("#12345678"); c.argb = 0x99abcdef; print("argb", c.hexa)
c = Color("#12345678"); c.rgba = 0xabcdef99; print("rgba", c.hexa)
c = Color("#336699"); print("hsl", c.hue, c.saturation, c.lightness)
c = Color("#33669980"); c.lightness = 0.7; print("set lightness", c.hexa, c.hue, c.saturation, c.lightness)
c = Color("#33669980"); c.saturation = 0.7; print("set sat", c.hexa, c.hue, c.saturation, c.lightness)
c = Color("#33669980"); c.hue = 100; print("set hue", c.hexa, c.hue, c.saturation, c.lightness)
for v in [0x00000000, 0xffffffff, 0x010203ff, 0x01020300]:
    c=Color(); c.value=v; print(hex(v), c.hex, Color(c.hex)==c)
print(Color(0xabcdef).hexa, Color(1,2,3).hexa, Color(1,2,3,128).hexa, Color("red", 0.5).hexa, Color(red=5, green=6, blue=7, alpha=8).hexa)
