#!/venv/bin/python
"""
CLI of the verification machinery.

    vp_check.py <Cxx> [--tier quick|thorough] [--replay file] [--shards N]

Exit 0: the property held on everything explored (KNOWN-FINDING lines allowed).
Exit 1: at least one line 'VIOLATION property=<id> replay=<path>'.
Exit 2: HARNESS-ERROR (a defect of the machinery, never a statement about the code under test).
"""
import os
import sys

HERE = os.path.dirname(os.path.abspath(__file__))


def main(argv):
    import argparse

    ap = argparse.ArgumentParser()
    ap.add_argument("property")
    ap.add_argument("--tier", default=os.environ.get("VERIF_TIER", "quick"), choices=["quick", "thorough"])
    ap.add_argument("--replay", default=None)
    ap.add_argument("--shards", type=int, default=None)
    args = ap.parse_args(argv)

    if os.environ.get("PYTHONHASHSEED") != "0":
        env = dict(os.environ)
        env["PYTHONHASHSEED"] = "0"
        os.execve(sys.executable, [sys.executable, os.path.abspath(__file__)] + argv, env)

    sys.path.insert(0, HERE)
    deps = os.path.join(HERE, ".deps")
    if os.path.isdir(deps):
        sys.path.append(deps)
    sys.setrecursionlimit(3000)
    try:
        import faulthandler
        import signal

        faulthandler.register(signal.SIGUSR1, all_threads=True)  # kill -USR1 <pid> shows where a run is
    except Exception:
        pass
    try:
        seed = int(os.environ.get("VERIF_SEED", "1"))
    except ValueError:
        seed = 1
    from harness import core

    prop = args.property.upper()
    modname = "harness.props.%s" % prop.lower()
    try:
        return core.main(modname, args.tier, seed, replay=args.replay, nshards=args.shards)
    except core.HarnessError as e:
        print("HARNESS-ERROR property=%s %s" % (prop, e))
        return 2
    except Exception:
        import traceback

        print("HARNESS-ERROR property=%s\n%s" % (prop, traceback.format_exc()))
        return 2


if __name__ == "__main__":
    sys.exit(main(sys.argv[1:]))
